#!/bin/sh
# tools/run_all.sh [quick|thorough] : run every registered check in turn, summary at the end
T=${1:-quick}
cd "$(dirname "$0")/.."
mkdir -p runlogs
for i in ${CHECKS:-01 02 03 04 05 06 07 08 09 10 11 12 13 14 15 16 17 18 19 20}; do
  s=$(date +%s)
  ./check C$i $T > runlogs/${T}_C$i.log 2>&1; rc=$?
  e=$(date +%s)
  echo "C$i exit=$rc wall=$((e-s))s $(grep -ac '^VIOLATION' runlogs/${T}_C$i.log) violations $(grep -ac '^KNOWN-FINDING' runlogs/${T}_C$i.log) known $(grep -ac '^INCONCLUSIVE' runlogs/${T}_C$i.log) inconclusive"
done
