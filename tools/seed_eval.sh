#!/bin/sh
# tools/seed_eval.sh <Cxx> <seed-name> [worktree]  : archive a seeded change from a scratch worktree, confirm its
# demo (fails with / passes without), run the check against /repo with the patch applied, undo it.
P=$1; NAME=$2; WT=${3:-/tmp/wt/$P}
D=/verif/seeded/$NAME
mkdir -p $D
git -C $WT diff -- streamz > $D/patch.diff
cp $WT/demo_seeded.py $D/demo_seeded.py
cd $WT
echo "--- demo WITH change:"; (PYTHONPATH=$WT timeout 300 /venv/bin/python demo_seeded.py > $D/demo_with.log 2>&1; echo "exit=$?" | tee -a $D/demo_with.log)
git stash -q
echo "--- demo WITHOUT change:"; (PYTHONPATH=$WT timeout 300 /venv/bin/python demo_seeded.py > $D/demo_without.log 2>&1; echo "exit=$?" | tee -a $D/demo_without.log)
git stash pop -q
cd /verif
git -C /repo apply $D/patch.diff || { echo "PATCH DOES NOT APPLY"; exit 1; }
echo "--- check $P quick with patch applied:"
VERIF_NO_EVIDENCE=1 VERIF_BUDGET_SCALE=${SCALE:-1} ./check $P quick > $D/check.log 2>&1; echo "check exit=$?" | tee -a $D/check.log
git -C /repo checkout -- .
grep -E "^VIOLATION" $D/check.log | head -3 | cut -c1-300
tail -1 $D/check.log | cut -c1-200
