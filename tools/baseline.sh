#!/bin/sh
# Runs the repository's pinned test suite (command from /root/.vp/BASELINE.json, guard off - there are no source
# hooks) and compares the set of passing tests with BASELINE.stable_pass.
cd /repo && /venv/bin/python -m pytest -ra -q -p no:cacheprovider --timeout=900 --continue-on-collection-errors --junitxml=/tmp/verif_baseline.xml > /tmp/verif_baseline.log 2>&1
/venv/bin/python - <<'PY'
import json, xml.etree.ElementTree as ET
base = json.load(open('/root/.vp/BASELINE.json'))
want = set(base['stable_pass'])
got = set()
for tc in ET.parse('/tmp/verif_baseline.xml').getroot().iter('testcase'):
    bad = [c.tag for c in tc if c.tag in ('failure', 'error', 'skipped')]
    if not bad:
        got.add("%s::%s" % (tc.get('classname'), tc.get('name')))
missing = sorted(want - got)
print("stable_pass: %d, passing now: %d, missing: %d" % (len(want), len(got), len(missing)))
for m in missing[:20]:
    print("  MISSING", m)
raise SystemExit(1 if missing else 0)
PY
