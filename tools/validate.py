#!/usr/bin/env python3
import json, sys, glob, jsonschema
m = json.load(open('/verif/MANIFEST.json'))
jsonschema.validate(m, json.load(open('/root/.vp/MANIFEST.schema.json')))
es = json.load(open('/root/.vp/EVIDENCE.schema.json'))
for c in m['checks']:
    p = '/verif/' + c['evidence_file']
    try:
        jsonschema.validate(json.load(open(p)), es); print('ok', p)
    except FileNotFoundError:
        print('MISSING', p)
print('manifest ok')
