#!/bin/sh
# in-process mutant -> property check that must report a violation (sensitivity twins)
cd /verif
while read m p only; do
  [ -z "$m" ] && continue
  n=$(VERIF_MUTANT=$m VERIF_ONLY="$only" ./check $p quick 2>&1 | grep -ac '^VIOLATION')
  echo "$m $p violations=$n"
done <<LIST
partition_no_cancel C08 partition
rate_limit_no_max C13 rate_limit
buffer_release_early C04 buffer
zip_no_pop_one C01 zip
timed_window_drop_on_swap C02 timed_window
latest_old_cb C14 latest
sliding_window_no_release C05 window
combine_latest_md_order C10 combine_latest
unique_no_refresh C01 unique_max
accumulate_state_before_func C16 acc
emit_release_on_exception C16 map
map_async_no_order C02 map_async
textfile_delim_in_line C17 d=2
filenames_unsorted C17 filenames
kafka_position_off_by_one C09 run/parts=1
kafka_commit_before_emit C09 crash/sync
kafka_no_low_clamp C09 step
df_mean_store_divisor C06 ^mean
df_diff_iloc_off_by_one C07 sum/n=2
df_rolling_short_carry C11 rolling_sum/n=3
df_groupby_keep_empty_groups C07 sum/n=2/by-column
df_window_state_alias C12 window-n2-sum
df_cumulative_drop_seed C11 cumsum
LIST
