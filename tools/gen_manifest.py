#!/usr/bin/env python3
"""Regenerates /verif/MANIFEST.json from the table below (keeps it schema-valid)."""
import json
import os

VERIF = os.path.dirname(os.path.dirname(os.path.abspath(__file__)))

TRUST = ("Trusted base: CrossHair 0.0.110 symbolic execution (python ints as mathematical "
         "integers), z3 5.1 wheel; the virtual event loop engine/vloop.py (FIFO ready queue, "
         "timers in (deadline, creation) order, integer clock) standing in for asyncio's "
         "selector loop; the real tornado/asyncio/streamz code runs on it unmodified. "
         "Bounds and stubs are listed in the evidence file and in DESIGN.md section 3. ")

CHECKS = {
    # id: (technique, level text, extra note)
}


def add(pid, technique, text, note="", design_ref=None):
    CHECKS[pid] = (technique, text, note, design_ref or "3 (%s)" % pid)


SYNC_NOTE = ("Pipeline shapes, node kinds/parameters and lengths are sharded (listed in the evidence); "
             "values are symbolic ints (unbounded where no node inspects them, [0,2] where one does). "
             "Reference semantics engine/refsem.py is trusted as the statement of the documented list-level meaning.")

add("C01",
    "CrossHair/z3 symbolic execution of real synchronous pipelines against an independent reference interpreter, "
    "compared at a recording node behind every node and on the global delivery order; slice index arithmetic "
    "from a symbolic (unbounded) pre-state",
    "Bounded symbolic model checking of the real node code: for each pipeline shape in the catalogue every input "
    "sequence of the stated length (every value, every source interleaving, every flush placement, every sibling "
    "attachment order) is decided by the solver.",
    SYNC_NOTE)

add("C10",
    "CrossHair/z3-driven exploration of the same pipelines with 0/1/2 metadata dictionaries per element (symbolic), "
    "metadata argument recorded behind every node and compared with the reference interpreter's provenance",
    "Bounded model checking: every assignment of 0, 1 or 2 metadata dictionaries to the elements, every value "
    "pattern over the key domain, every interleaving/flush placement within the bounds is explored via solver forks "
    "(solver-driven enumeration; the concrete remainder of each path runs the real code).",
    SYNC_NOTE)

add("C05",
    "CrossHair/z3-driven exploration of the real pipelines with instrumented RefCounters: counts compared with the "
    "reference interpreter's holder multiset after every emit; inductive one-step obligations from symbolic "
    "pre-states with unconstrained counter values",
    "Bounded model checking of counts at every quiescent point (synchronous pipelines) plus one-step inductive "
    "obligations for buffering nodes that extend the result to histories of any length.",
    SYNC_NOTE + " Holder convention = the one fixed by the existing tests.")

ASYNC_NOTE = ("Schedules (which external action happens next: a producer emits, the oldest or second-oldest pending "
              "consumer job completes, the clock jumps to the next timer) are symbolic and decided lazily by solver forks; "
              "payloads are opaque tokens. Template list, schedule length and element counts are in the evidence. "
              "Callbacks made ready in one loop iteration run FIFO (asyncio semantics) is assumed.")

add("C02",
    "CrossHair/z3 exploration of all bounded schedules over the real asynchronous nodes (buffer, delay, rate_limit, "
    "map_async, timed_window, partition(timeout), zip, union, sinks) on a virtual event loop; delivery log compared "
    "with the synchronous semantics at quiescence",
    "Bounded model checking over schedules: every interleaving of emissions, consumer completions (incl. out of order) "
    "and timer expirations up to the stated length is explored on the real code; CONFIRMED = schedule tree exhausted.",
    ASYNC_NOTE)

add("C03",
    "same schedule exploration; wait / bound / wake-up clauses evaluated after every step; blocking emit via a "
    "cooperative model of threading.Event",
    "Bounded model checking over schedules of the back-pressure clauses for every bound n in {1,2,3}.",
    ASYNC_NOTE + " Known finding: map_async runs parallelism+1 jobs (pinned by the existing tests).")

add("C04",
    "same schedule exploration with instrumented real RefCounters; after every step a counter at zero must belong to "
    "a completely handled element; violations classified by releasing function / template / phase",
    "Bounded model checking over schedules; each early release is identified by its call site so that known "
    "design-level findings do not mask new ones.",
    ASYNC_NOTE)

add("C16",
    "CrossHair/z3-driven exploration of fault masks (one symbolic bit per user-function invocation) over real "
    "synchronous pipelines, against a reference interpreter that aborts the failing push at the raising node",
    "Bounded model checking over fault sequences: every subset of failing invocations within the mask length, "
    "every key-value pattern, for each pipeline shape.",
    SYNC_NOTE)

DF_NOTE = ("pandas/numpy are C code: the real streamz aggregation code and wrappers run on mframe, a list-backed model of the "
           "pandas API slice they use, with exact rational arithmetic; the model is validated differentially against the real "
           "pandas at the start of every run and every counterexample is re-run on the real pandas before it is reported. "
           "Batch-length patterns, aggregation and window parameters are sharded; values (unbounded ints), group keys and "
           "timestamps are symbolic. IEEE rounding is outside the claim.")

add("C06",
    "CrossHair/z3 symbolic execution of the real aggregation code (aggregations.py, dataframe/core.py wrappers, collection.py) "
    "on model frames with symbolic values/keys/NaN flags, against the one-shot aggregation over the concatenated prefix",
    "Bounded symbolic model checking: for every batch-length pattern within the bounds, every value assignment is decided by the "
    "solver (equalities of means/variances by cross-multiplication over exact rationals).", DF_NOTE)

add("C07",
    "same engine on windowed aggregations (diff_iloc, diff_loc, diff_align, on_old, windowed groupby) with symbolic values, keys "
    "and non-decreasing symbolic timestamps, against the aggregation over exactly the rows inside the window",
    "Bounded symbolic model checking over values/keys/timestamps for every batch pattern and window size in the bounds.", DF_NOTE)

add("C11",
    "same engine on rolling / cumulative / expanding / ewm accumulators: every composition of a table's rows into batches, "
    "compared with the one-pass result (ewm against the closed form with exact rational weights)",
    "Bounded symbolic model checking over values and timestamps for every composition of <= 4 (quick) / 6 (thorough) rows.", DF_NOTE)

add("C12",
    "same engine: uninterrupted run vs a fresh pipeline seeded with the state captured (by reference) after every batch",
    "Bounded symbolic model checking over values/keys/timestamps for every cut point of every batch pattern in the bounds.", DF_NOTE)

add("C08",
    "CrossHair/z3 symbolic execution of timed_window / timed_window_unique / partition(timeout) on the virtual loop with "
    "symbolic arrival gaps, interval, consumer durations, keys and same-instant ordering",
    "Bounded symbolic model checking over time: every arrival pattern relative to the tick/timeout instants inside the stated "
    "ranges is decided by the solver.", "Virtual time is integer ticks.")

add("C09",
    "CrossHair/z3: one polling step of the real poll_kafka generator from an arbitrary state with UNBOUNDED symbolic offsets; "
    "solver-driven exploration of bounded production histories and of a crash before every loop callback followed by a restart, "
    "against an in-memory contract model of confluent_kafka",
    "Inductive step (any number of polls) + bounded model checking of histories and crash points.",
    "confluent_kafka is not installed: its documented client contract is modelled (engine/models/fake_confluent_kafka.py).")

add("C15",
    "CrossHair/z3-driven exploration of all bounded histories of connect/disconnect/destroy/emit/gc on the real nodes, against a "
    "reference in which the combining node is rebuilt over its current inputs",
    "Bounded model checking over graph-edit histories (first operation sharded, the rest decided lazily by solver forks).",
    "CPython reference counting + explicit gc.collect() decide when an unreferenced branch dies.")

add("C17",
    "CrossHair/z3 symbolic execution of from_textfile._run with symbolic text chunks and a symbolic delimiter (arbitrary "
    "characters, lengths sharded) and symbolic empty polls; filenames._run with a symbolic directory listing per poll",
    "Bounded symbolic model checking over strings: every content/delimiter equality pattern for every chunking in the bounds.",
    "File object and glob are in-memory stand-ins.")

add("C18",
    "CrossHair/z3-driven exploration of all bounded start/stop/advance/complete histories on the real Source classes on the "
    "virtual loop with an instrumented run()/_run()",
    "Bounded model checking over lifecycle histories placed at every suspension point of the polling loop.", ASYNC_NOTE)

add("C19",
    "CrossHair/z3-driven exploration of every (asynchronous, loop) configuration of chains and joins built through the fluent "
    "API, with thread/IOLoop creation observed through recorders, against a 20-line model of the statement",
    "Exhaustive (within the sharded node-kind catalogue) model checking of construction-time configurations.",
    "A Dask default client being present is outside the claim.")

add("C20",
    "CrossHair/z3-driven exploration of task / scatter / gather completion orders of the real streamz/dask.py nodes on a "
    "contract model of distributed.Client, against the same template built from the local nodes",
    "Bounded model checking over cluster completion orders for each segment template.",
    "The distributed client is modelled (engine/models/model_dask_client.py); producers await emit.")

add("C14",
    "CrossHair/z3 exploration of all schedules (arrival vs consumer completion) over the real latest() code on the virtual loop",
    "Bounded symbolic model checking: every interleaving of up to the stated number of arrivals and consumer completions is explored (solver forks at every schedule choice); CONFIRMED means the path tree was exhausted.",
    "Payloads are distinct tokens; only the schedule is symbolic.")

add("C13",
    "CrossHair/z3 symbolic execution of the real rate_limit/delay code on a virtual event loop "
    "with symbolic arrival gaps, interval and handling durations; AST->SMT inductive lemma "
    "(z3 + cvc5) for unbounded arrival counts",
    "Bounded symbolic model checking of the real code: every arrival-gap pattern, every interval "
    "and every consumer duration inside the stated ranges for up to k arrivals is decided by "
    "the solver (CONFIRMED = path tree exhausted). The spacing invariant of rate_limit.update is "
    "additionally proved inductive for any number of arrivals from its AST.",
    "Virtual time is integer ticks; wall-clock float rounding is outside the claim.")

NOT_YET = {}


def main():
    props = [json.loads(l) for l in open(os.path.join(VERIF, "properties.jsonl"))]
    checks = []
    na = []
    for p in props:
        pid = p["id"]
        if pid in CHECKS:
            tech, text, note, ref = CHECKS[pid]
            checks.append({
                "property_id": pid,
                "quick_cmd": "./check %s quick" % pid,
                "thorough_cmd": "./check %s thorough" % pid,
                "evidence_file": "evidence/%s.json" % pid,
                "replay_cmd_template": "./check replay {path}",
                "engine": "crosshair-z3",
                "level_claimed": {"category": "model_checking", "text": text,
                                  "design_ref": "DESIGN.md section " + ref},
                "level_note": TRUST + note,
                "technique": tech,
            })
        else:
            na.append({"property_id": pid,
                       "reason": NOT_YET.get(pid, "check not built yet in this round (planned, "
                                                  "see DESIGN.md section 3); not claimed until "
                                                  "its obligations run")})
    manifest = {
        "version": 1,
        "setup_cmd": "./setup.sh",
        "hooks": {
            "guard": "STREAMZ_VERIF",
            "enable": "no source hooks: clock, event loop, Kafka, Dask, pandas and file-system "
                      "stand-ins are installed by the harnesses from outside "
                      "(monkey-patching module attributes in the worker process)",
            "baseline_off_cmd": "cd /repo && /venv/bin/python -m pytest -ra -q -p no:cacheprovider "
                                "--timeout=900 --continue-on-collection-errors",
            "source_commits": [],
            "add_only": True,
        },
        "engines": [
            {"name": "crosshair-z3", "path": "engine/runner.py",
             "serves_properties": sorted(CHECKS),
             "kind_free_text": "CrossHair 0.0.110 symbolic execution of the real streamz code "
                               "(imported from /repo's working tree on every run) with z3; "
                               "virtual asyncio loop; counterexamples replayed concretely"},
            {"name": "ast2smt", "path": "engine/ast2smt.py",
             "serves_properties": ["C13"],
             "kind_free_text": "Python-AST -> SMT-LIB translation of rate_limit.update re-read from "
                               "/repo on every run; inductive obligations discharged by the z3 and cvc5 "
                               "binaries, which must agree"},
        ],
        "checks": checks,
        "not_applicable": na,
        "notes": "All checks: exit 0 = held on everything explored; 1 = replayed violation "
                 "(VIOLATION line); 2 = inconclusive (budget/unknown), never reported as "
                 "success; 3 = harness error. known_findings.json lists genuine defects that "
                 "are recorded rather than repaired (KNOWN-FINDING lines) and the fixed ones.",
    }
    with open(os.path.join(VERIF, "MANIFEST.json"), "w") as f:
        json.dump(manifest, f, indent=1)
    print("MANIFEST.json: %d checks, %d not_applicable" % (len(checks), len(na)))


if __name__ == "__main__":
    main()
