"""mframe - a list-backed model of the slice of the pandas API that streamz/dataframe uses.

pandas and numpy are C code and cannot be executed symbolically; the streamz aggregation
code is duck-typed (it dispatches on `get_dataframe_package(df)` and on attribute
presence), so it runs unmodified on these classes.  Values may be symbolic ints; lengths,
column names and group keys (small domains) are concrete.  None stands for NaN (only
produced by rolling ops with too few periods).  Validated differentially against the real
pandas by engine/model_validation.py on every run of the dataframe checks.

This module is deliberately top-level (`mframe`), because streamz finds `concat` through
the top-level package of the frame's class.
"""
from numbers import Number

from fractions import Fraction

NaN = None


class R(object):
    """Exact rational n/d with a (possibly symbolic) integer numerator and a concrete positive
    denominator.  All model values are R, so that streamz' own arithmetic (totals / counts,
    x2 / n - (x / n) ** 2, exponential weights ...) stays in exact integer arithmetic under
    the solver instead of floats: equality is decided by cross-multiplication."""
    __slots__ = ("n", "d")

    def __init__(self, n, d=1):
        self.n = n
        self.d = d

    @staticmethod
    def of(x):
        if isinstance(x, R):
            return x
        if type(x) is float:
            f = Fraction(x)
            return R(f.numerator, f.denominator)
        if isinstance(x, Fraction):
            return R(x.numerator, x.denominator)
        return R(x, 1)

    def isnan(self):
        return self.d == 0

    def __add__(self, o):
        o = R.of(o)
        if self.d == 0 or o.d == 0:
            return R(0, 0)
        if self.d == o.d:
            return R(self.n + o.n, self.d)
        return R(self.n * o.d + o.n * self.d, self.d * o.d)

    __radd__ = __add__

    def __sub__(self, o):
        o = R.of(o)
        if self.d == 0 or o.d == 0:
            return R(0, 0)
        if self.d == o.d:
            return R(self.n - o.n, self.d)
        return R(self.n * o.d - o.n * self.d, self.d * o.d)

    def __rsub__(self, o):
        return R.of(o) - self

    def __neg__(self):
        return R(-self.n, self.d)

    def __mul__(self, o):
        o = R.of(o)
        return R(self.n * o.n, self.d * o.d)

    __rmul__ = __mul__

    def __truediv__(self, o):
        o = R.of(o)
        on = o.n
        if type(on) is not int:
            raise NotImplementedError("division by a symbolic quantity")
        if on == 0 or self.d == 0 or o.d == 0:
            return R(0, 0)        # numpy semantics: nan/inf instead of an exception
        if on < 0:
            return R(-self.n * o.d, self.d * -on)
        return R(self.n * o.d, self.d * on)

    def __rtruediv__(self, o):
        return R.of(o) / self

    def __pow__(self, p):
        if p == 2:
            return R(self.n * self.n, self.d * self.d)
        if p == 0.5:
            return ("sqrt", self)
        raise NotImplementedError

    def _cmp(self, o):
        o = R.of(o)
        return self.n * o.d, o.n * self.d

    def __eq__(self, o):
        if o is None:
            return self.d == 0
        if isinstance(o, (tuple, str)):
            return False
        if self.d == 0 or R.of(o).d == 0:
            return self.d == 0 and R.of(o).d == 0    # (harness-level: nan matches nan)
        a, b = self._cmp(o)
        return a == b

    def __ne__(self, o):
        return not self.__eq__(o)

    def __lt__(self, o):
        a, b = self._cmp(o)
        return a < b

    def __le__(self, o):
        a, b = self._cmp(o)
        return a <= b

    def __gt__(self, o):
        a, b = self._cmp(o)
        return a > b

    def __ge__(self, o):
        a, b = self._cmp(o)
        return a >= b

    __hash__ = None

    def __float__(self):
        return self.n / self.d

    def __repr__(self):
        return "R(%r/%r)" % (self.n, self.d)


Number.register(R)


def wrap(vals):
    return [v if (v is None or isinstance(v, R)) else R(v, 1) for v in vals]


class MIndex:
    def __init__(self, values, name=None):
        self.values = list(values)
        self.name = name
        self.dtype = "int64"

    def __len__(self):
        return len(self.values)

    def __iter__(self):
        return iter(self.values)

    def __getitem__(self, i):
        if isinstance(i, slice):
            return MIndex(self.values[i], self.name)
        return self.values[i]

    def min(self):
        if not self.values:
            return None          # NaT / nan
        m = self.values[0]
        for v in self.values[1:]:
            if v < m:
                m = v
        return m

    def max(self):
        if not self.values:
            return None
        m = self.values[0]
        for v in self.values[1:]:
            if v > m:
                m = v
        return m

    def __eq__(self, other):
        return list(self.values) == list(getattr(other, "values", other))

    def __ne__(self, other):
        return not self.__eq__(other)

    __hash__ = None


class _ILoc:
    def __init__(self, obj):
        self.obj = obj

    def __getitem__(self, i):
        return self.obj._iloc(i)


class _Loc:
    def __init__(self, obj):
        self.obj = obj

    def __getitem__(self, s):
        assert isinstance(s, slice) and s.step is None
        idx = self.obj.index.values
        keep = []
        for j, v in enumerate(idx):
            if s.start is not None and v < s.start:
                continue
            if s.stop is not None and v > s.stop:       # label slices are inclusive
                continue
            keep.append(j)
        return self.obj._take(keep)


def _binop(a, b, op):
    if a is None or b is None:
        return None
    return op(a, b)


class MSeries:
    """groupby/head/mean/dtype/name make streamz' is_series_like() accept it."""

    def __init__(self, values=(), index=None, name=None):
        self.values = list(values)
        if index is None:
            index = range(len(self.values))
        self.index = index if isinstance(index, MIndex) else MIndex(index)
        assert len(self.index) == len(self.values)
        self.name = name
        self.dtype = "int64"

    # -- structure
    def __len__(self):
        return len(self.values)

    @property
    def size(self):
        return len(self.values)

    @property
    def iloc(self):
        return _ILoc(self)

    @property
    def loc(self):
        return _Loc(self)

    def _iloc(self, i):
        if isinstance(i, slice):
            return MSeries(self.values[i], MIndex(self.index.values[i], self.index.name), self.name)
        return self.values[i]

    def _take(self, positions):
        return MSeries([self.values[j] for j in positions],
                       MIndex([self.index.values[j] for j in positions], self.index.name), self.name)

    def __getitem__(self, key):
        if isinstance(key, slice):
            return self._iloc(key)
        if isinstance(key, MSeries):       # boolean mask (aligned by position)
            return self._take([j for j, m in enumerate(key.values) if m])
        for j, v in enumerate(self.index.values):
            if v == key:
                return self.values[j]
        raise KeyError(key)

    def __setitem__(self, key, value):
        if isinstance(key, slice) and key == slice(None):
            self.values = [value for _ in self.values]
            return
        raise NotImplementedError

    def head(self, n=5):
        return self._iloc(slice(None, n))

    def copy(self):
        return MSeries(list(self.values), MIndex(list(self.index.values), self.index.name), self.name)

    def to_dict(self):
        return dict(zip(self.index.values, self.values))

    def groupby(self, grouper):
        return MGroupBy(MFrame({"_": self.values}, self.index), grouper)["_"]

    # -- reductions (NaN skipped)
    def _valid(self):
        return [v for v in self.values if v is not None]

    def sum(self):
        t = R(0, 1)
        for v in self._valid():
            t = t + v
        return t

    def count(self):
        return len(self._valid())

    def mean(self):
        vs = self._valid()
        if not vs:
            return None
        return self.sum() / len(vs)

    def var(self, ddof=1):
        vs = self._valid()
        n = len(vs)
        if n - ddof <= 0:
            return None
        m = self.sum() / n
        t = 0
        for v in vs:
            t = t + (v - m) * (v - m)
        return t / (n - ddof)

    def min(self):
        vs = self._valid()
        m = vs[0]
        for v in vs[1:]:
            if v < m:
                m = v
        return m

    def max(self):
        vs = self._valid()
        m = vs[0]
        for v in vs[1:]:
            if v > m:
                m = v
        return m

    def all(self):
        for v in self.values:
            if not v:
                return False
        return True

    def value_counts(self):
        keys, counts = [], []
        for v in self._valid():
            for j, k in enumerate(keys):
                if k == v:
                    counts[j] += 1
                    break
            else:
                keys.append(v)
                counts.append(1)
        return MSeries(counts, MIndex(keys, self.name), name="count")

    # -- elementwise
    def _elementwise(self, other, op):
        if isinstance(other, MSeries):
            if list(self.index.values) == list(other.index.values):
                return MSeries([_binop(a, b, op) for a, b in zip(self.values, other.values)],
                               self.index, self.name)
            return self._aligned(other, op, fill=None)
        return MSeries([_binop(a, other, op) for a in self.values], self.index, self.name)

    def _aligned(self, other, op, fill):
        def unwrap(k):
            # value_counts keys are model values; as index labels they are plain numbers
            return k.n if isinstance(k, R) and k.d == 1 else k
        ka = [unwrap(k) for k in self.index.values]
        kb = [unwrap(k) for k in other.index.values]
        keys = list(ka)
        for k in kb:
            if k not in keys:
                keys.append(k)
        keys = sorted(keys)
        out = []
        for k in keys:
            x = y = None
            fa = fb = False
            for kk, v in zip(ka, self.values):
                if kk == k:
                    x, fa = v, True
            for kk, v in zip(kb, other.values):
                if kk == k:
                    y, fb = v, True
            if not fa:
                x = fill
            if not fb:
                y = fill
            out.append(_binop(x, y, op))
        return MSeries(out, MIndex(keys, self.index.name), self.name)

    def add(self, other, fill_value=None):
        return self._aligned(other, lambda x, y: x + y, fill_value)

    def sub(self, other, fill_value=None):
        return self._aligned(other, lambda x, y: x - y, fill_value)

    def __add__(self, o):
        return self._elementwise(o, lambda x, y: x + y)

    def __radd__(self, o):
        return self._elementwise(o, lambda x, y: y + x)

    def __sub__(self, o):
        return self._elementwise(o, lambda x, y: x - y)

    def __rsub__(self, o):
        return self._elementwise(o, lambda x, y: y - x)

    def __mul__(self, o):
        return self._elementwise(o, lambda x, y: x * y)

    def __rmul__(self, o):
        return self._elementwise(o, lambda x, y: y * x)

    def __truediv__(self, o):
        return self._elementwise(o, lambda x, y: (x / y) if y != 0 else None)

    def __rtruediv__(self, o):
        return self._elementwise(o, lambda x, y: (y / x) if x != 0 else None)

    def __pow__(self, p):
        if p == 2:
            return MSeries([None if v is None else v * v for v in self.values], self.index, self.name)
        if p == 0.5:
            return MSeries([None if v is None else ("sqrt", v) for v in self.values], self.index, self.name)
        raise NotImplementedError

    def __neg__(self):
        return MSeries([None if v is None else -v for v in self.values], self.index, self.name)

    def _cmp(self, o, op):
        if isinstance(o, MSeries):
            return MSeries([op(a, b) for a, b in zip(self.values, o.values)], self.index, self.name)
        return MSeries([op(a, o) for a in self.values], self.index, self.name)

    def __gt__(self, o):
        return self._cmp(o, lambda x, y: x > y)

    def __ge__(self, o):
        return self._cmp(o, lambda x, y: x >= y)

    def __lt__(self, o):
        return self._cmp(o, lambda x, y: x < y)

    def __le__(self, o):
        return self._cmp(o, lambda x, y: x <= y)

    def __ne__(self, o):
        return self._cmp(o, lambda x, y: x != y)

    def __eq__(self, o):
        return self._cmp(o, lambda x, y: x == y)

    __hash__ = None

    def astype(self, t):
        return self.copy()

    def where(self, cond, other=None):
        cv = cond.values if isinstance(cond, MSeries) else [cond] * len(self.values)
        return MSeries([v if c else other for v, c in zip(self.values, cv)], self.index, self.name)

    # pandas' augmented assignments mutate the series in place
    def _inplace(self, o, op):
        r = self._elementwise(o, op)
        self.values = r.values
        self.index = r.index
        return self

    def __iadd__(self, o):
        return self._inplace(o, lambda x, y: x + y)

    def __isub__(self, o):
        return self._inplace(o, lambda x, y: x - y)

    # -- cumulative / rolling
    def _cum(self, f):
        out, acc = [], None
        for v in self.values:
            acc = v if acc is None else f(acc, v)
            out.append(acc)
        return MSeries(out, self.index, self.name)

    def cumsum(self):
        return self._cum(lambda a, b: a + b)

    def cumprod(self):
        return self._cum(lambda a, b: a * b)

    def cummin(self):
        return self._cum(lambda a, b: b if b < a else a)

    def cummax(self):
        return self._cum(lambda a, b: b if b > a else a)

    def rolling(self, window):
        return MRolling(self, window)

    def __repr__(self):
        return "MSeries(%r, index=%r, name=%r)" % (self.values, self.index.values, self.name)


class MRolling:
    """int window: last `window` rows, min_periods = window (pandas default);
    non-int window T (an int duration here): rows with index in (t - T, t], min_periods 1."""

    def __init__(self, s, window, by_time=False):
        self.s = s
        self.window = window
        self.by_time = isinstance(window, Duration)

    def _windows(self):
        vals, idx = self.s.values, self.s.index.values
        for i in range(len(vals)):
            if self.by_time:
                w = [vals[j] for j in range(i + 1) if idx[j] > idx[i] - self.window.n]
                yield w, True
            else:
                lo = i - self.window + 1
                w = vals[max(lo, 0):i + 1]
                yield w, lo >= 0

    def _apply(self, f):
        out = []
        for w, enough in self._windows():
            w = [v for v in w if v is not None]
            out.append(f(w) if (enough and w) else None)
        return MSeries(out, self.s.index, self.s.name)

    def sum(self):
        def f(w):
            t = 0
            for v in w:
                t = t + v
            return t
        return self._apply(f)

    def count(self):
        out = []
        for w, enough in self._windows():
            w = [v for v in w if v is not None]
            out.append(len(w) if (enough or True) else None)
        # pandas: rolling(n).count() uses min_periods=n as well since 1.x -> NaN when not enough
        out2 = []
        for (w, enough), c in zip(self._windows(), out):
            out2.append(c if enough else None)
        return MSeries(out2, self.s.index, self.s.name)

    def mean(self):
        def f(w):
            t = 0
            for v in w:
                t = t + v
            return t / len(w)
        return self._apply(f)

    def min(self):
        def f(w):
            m = w[0]
            for v in w[1:]:
                if v < m:
                    m = v
            return m
        return self._apply(f)

    def max(self):
        def f(w):
            m = w[0]
            for v in w[1:]:
                if v > m:
                    m = v
            return m
        return self._apply(f)


class Duration:
    """Stand-in for pd.Timedelta over integer timestamps."""

    def __init__(self, n, unit=None):
        if isinstance(n, str):
            assert n == "1ns", n
            n = 1
        self.n = n.n if isinstance(n, Duration) else n

    def __rsub__(self, other):
        if other is None:
            return None
        return other - self.n

    def __radd__(self, other):
        return other + self.n

    def __add__(self, other):
        return Duration(self.n + (other.n if isinstance(other, Duration) else other))

    def __sub__(self, other):
        return Duration(self.n - (other.n if isinstance(other, Duration) else other))


Timedelta = Duration


def Timestamp(x):
    return x


class MFrame:
    """groupby/head/merge/mean + dtypes/columns, and no name/dtype: is_dataframe_like()."""

    def __init__(self, data=None, index=None):
        data = data or {}
        self.cols = {k: list(v) for k, v in data.items()}
        n = len(next(iter(self.cols.values()))) if self.cols else 0
        if index is None:
            index = range(n)
        self.index = index if isinstance(index, MIndex) else MIndex(index)

    @property
    def columns(self):
        return list(self.cols)

    @property
    def dtypes(self):
        return {k: "int64" for k in self.cols}

    def __len__(self):
        return len(self.index)

    @property
    def iloc(self):
        return _ILoc(self)

    @property
    def loc(self):
        return _Loc(self)

    def _iloc(self, i):
        assert isinstance(i, slice)
        return MFrame({k: v[i] for k, v in self.cols.items()}, MIndex(self.index.values[i], self.index.name))

    def _take(self, positions):
        return MFrame({k: [v[j] for j in positions] for k, v in self.cols.items()},
                      MIndex([self.index.values[j] for j in positions], self.index.name))

    def __getitem__(self, key):
        if isinstance(key, MSeries):
            return self._take([j for j, m in enumerate(key.values) if m])
        if isinstance(key, list):
            return MFrame({k: self.cols[k] for k in key}, self.index)
        return MSeries(self.cols[key], self.index, key)

    def __getattr__(self, key):
        cols = self.__dict__.get("cols", {})
        if key in cols:
            return MSeries(cols[key], self.index, key)
        raise AttributeError(key)

    def assign(self, **kw):
        d = dict(self.cols)
        for k, v in kw.items():
            d[k] = list(v.values) if isinstance(v, MSeries) else [v] * len(self)
        return MFrame(d, self.index)

    def head(self, n=5):
        return self._iloc(slice(None, n))

    def copy(self):
        return MFrame(self.cols, MIndex(list(self.index.values), self.index.name))

    def merge(self, *a, **k):
        raise NotImplementedError

    def _reduce_cols(self, f):
        cols = list(self.cols)
        return MSeries([f(MSeries(self.cols[c])) for c in cols], MIndex(cols))

    def sum(self):
        return self._reduce_cols(lambda s: s.sum())

    def count(self):
        return self._reduce_cols(lambda s: s.count())

    def mean(self):
        return self._reduce_cols(lambda s: s.mean())

    def groupby(self, grouper):
        return MGroupBy(self, grouper)

    def __repr__(self):
        return "MFrame(%r, index=%r)" % (self.cols, self.index.values)


class MGroupBy:
    def __init__(self, frame, grouper, col=None):
        self.frame = frame
        self.grouper = grouper
        self.col = col

    def __getitem__(self, col):
        return MGroupBy(self.frame, self.grouper, col)

    def __getattr__(self, col):
        fr = self.__dict__.get("frame")
        if fr is not None and col in fr.cols:
            return MGroupBy(fr, self.grouper, col)
        raise AttributeError(col)

    def _keys(self):
        g = self.grouper
        if isinstance(g, str):
            return list(self.frame.cols[g]), g
        if isinstance(g, MSeries):
            return list(g.values), g.name
        return list(g), None

    def _groups(self):
        keys, name = self._keys()
        assert len(keys) == len(self.frame), "grouper length mismatch"
        order = []
        for k in keys:
            if k not in order:
                order.append(k)
        order = sorted(order)
        return keys, name, order

    def _reduce(self, f, use_col=True):
        keys, name, order = self._groups()
        col = self.col
        vals = self.frame.cols[col] if col is not None else None
        out = []
        for k in order:
            rows = [j for j, kk in enumerate(keys) if kk == k]
            out.append(f([vals[j] for j in rows] if vals is not None else rows))
        return MSeries(out, MIndex(order, name), col)

    def sum(self):
        def f(vs):
            t = 0
            for v in vs:
                if v is not None:
                    t = t + v
            return t
        return self._reduce(f)

    def count(self):
        return self._reduce(lambda vs: len([v for v in vs if v is not None]))

    def size(self):
        keys, name, order = self._groups()
        return MSeries([len([1 for kk in keys if kk == k]) for k in order], MIndex(order, name), None)

    def agg(self, fn):
        return self._reduce(lambda vs: fn(MSeries(vs)))

    def mean(self):
        return self._reduce(lambda vs: MSeries(vs).mean())

    def var(self, ddof=1):
        return self._reduce(lambda vs: MSeries(vs).var(ddof))


def concat(objs, axis=0):
    objs = [o for o in objs]
    if axis == 0:
        first = objs[0]
        if isinstance(first, MSeries):
            vals, idx = [], []
            for o in objs:
                vals.extend(o.values)
                idx.extend(o.index.values)
            return MSeries(vals, MIndex(idx, first.index.name), first.name)
        cols = {k: [] for k in first.cols}
        idx = []
        for o in objs:
            for k in cols:
                cols[k].extend(o.cols[k])
            idx.extend(o.index.values)
        return MFrame(cols, MIndex(idx, first.index.name))
    raise NotImplementedError


Series = MSeries
DataFrame = MFrame
