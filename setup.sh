#!/bin/sh
# Build /verif/.venv offline: overlay on /venv (repo deps) + crosshair-tool from the wheelhouse.
# Idempotent. No network is used (PIP_NO_INDEX).
set -e
cd "$(dirname "$0")"
V=.venv
if [ -x $V/bin/python ] && $V/bin/python -c "import crosshair, z3, streamz" >/dev/null 2>&1; then
    exit 0
fi
rm -rf $V
/venv/bin/python -m venv $V
SP=$($V/bin/python -c "import sysconfig; print(sysconfig.get_paths()['purelib'])")
REPO_DIR=${VERIF_REPO:-/repo}
cat > "$SP/verif_overlay.pth" <<PTH
import site; site.addsitedir('/venv/lib/python3.12/site-packages')
$REPO_DIR
PTH
PIP_NO_INDEX=1 $V/bin/pip install -q --no-index --find-links /opt/veriftools/wheels crosshair-tool >/dev/null
$V/bin/python -c "import crosshair, z3, streamz; print('verif venv ok', z3.get_version_string())"
