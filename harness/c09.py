"""C09 - Kafka batches: gap-free offsets, commit after processing, at-least-once.

The real FromKafkaBatched.start/poll_kafka (incl. nested commit / checkpoint_emit),
from_kafka_batched, get_message_batch, RefCounter and starmap run against an in-memory
contract model of the confluent_kafka client (engine/models/fake_confluent_kafka.py).

(A) bounded symbolic runs: messages appended per partition between polls, initial
    watermarks, committed offset, max_batch_size and the reset policy are symbolic ints.
(B) crash / restart: the process dies before an arbitrary loop callback (symbolic crash
    point over *every* event of the run); a new source with the same group id is started
    on the surviving broker.
(C) refresh_partitions: a partition is added at a symbolic poll.
"""
import sys
import types

from engine.vloop import World, Crash
from engine.symutil import Verdict, untraced, pick, decide
from engine.models import fake_confluent_kafka as fk

META = {
    "bounds": {"quick": "one polling step from an arbitrary state: committed position, watermarks and max_batch_size UNBOUNDED "
                        "symbolic ints (0<=low<=high, mbs>=1); bounded runs: 1-2 partitions, <= 3 polls, messages appended per "
                        "partition per poll in a small set, initial high in [0,2], low <= high, committed in {none, 0..high}, "
                        "max_batch_size in {1,2,3}, reset policy in {absent, earliest, latest}; crash before any of the first 30 "
                        "loop callbacks; synchronous consumer and buffer(2)+asynchronous consumer completing in order",
               "thorough": "<= 3 polls, 3 partitions, crash over the first 60 callbacks"},
    "outside": ["rebalancing", "broker errors (KafkaException paths only as 'partition skipped this poll')",
                "cudf engine", "real network / librdkafka", "messages with empty values (get_message_batch skips them)",
                "batches of one partition completing out of order (excluded by the statement)"],
    "stubs": ["confluent_kafka -> engine/models/fake_confluent_kafka.py (contract model)",
              "streamz.sources.time -> no-op sleep", "event loop + clock: engine/vloop.py"],
    "assumptions": ["commit(asynchronous=True) is applied by the broker when called"],
}

TOPIC = "t"


def install_fake():
    sys.modules["confluent_kafka"] = fk
    import streamz.sources as S

    class FakeTime:
        @staticmethod
        def time():
            return 0.0

        spins = [0]

        @staticmethod
        def sleep(x):
            FakeTime.spins[0] += 1
            if FakeTime.spins[0] > 200:
                raise RuntimeError("get_message_batch keeps polling for a message that never comes")
    S.time = FakeTime
    return fk.reset_broker()


def pre_run(shard, *v):
    np_ = shard["nparts"]
    i = 0
    for p in range(np_):
        h0, l0, c0 = v[i], v[i + 1], v[i + 2]
        i += 3
        if not (0 <= h0 <= shard["hmax"] and 0 <= l0 <= h0 and -1 <= c0 <= h0):
            return False
    return True


def _params(reset):
    p = {"bootstrap.servers": "x", "group.id": "g"}
    if reset == 1:
        p["auto.offset.reset"] = "earliest"
    elif reset == 2:
        p["auto.offset.reset"] = "latest"
    return p


class Scenario:
    """One process lifetime on a broker."""

    def __init__(self, broker, reset, mbs, npartitions=None, refresh=False, consumer="sync"):
        from streamz import Stream
        self.world = World()
        self.loop = self.world.loop
        self.broker = broker
        self.processed = []      # batches completely processed: list of lists of (p, o)
        self.started = []
        params = _params(reset)
        self.src = Stream.from_kafka_batched(TOPIC, params, poll_interval=1, npartitions=npartitions,
                                             refresh_partitions=refresh, max_batch_size=mbs,
                                             asynchronous=True, loop=self.world.io)
        sc = self
        if consumer == "sync":
            def consume(batch):
                sc.started.append(batch)
                sc.processed.append(batch)
            self.src.sink(consume)
        else:
            node = self.src.buffer(2) if consumer == "buffer" else self.src

            def consume(batch):
                sc.started.append(batch)
                fut = sc.loop.create_future()
                sc.world.jobs.append(_Job(batch, fut))
                fut.add_done_callback(lambda f: sc.processed.append(batch))
                return fut
            node.sink(consume)
        broker.clock = lambda: len(self.processed)

    def start(self):
        self.src.start()
        self.loop.run_ready()

    def poll(self):
        self.loop.advance()

    def close(self):
        self.world.close()


class _Job:
    def __init__(self, x, fut):
        self.x = x
        self.fut = fut
        self.consumer = "k"
        self.done = False


def check_batches(vd, batches, start_pos, highs, mbs):
    """Offsets per partition: contiguous, start at the expected position, below the high
    watermark, batch size <= mbs, single partition per batch."""
    nxt = dict(start_pos)
    for b in batches:
        if len(b) == 0:
            vd.add("empty-batch")
            continue
        if len(b) > mbs:
            vd.add("batch-over-limit")
        p = b[0][1]
        for (tag, pp, o) in b:
            if pp != p:
                vd.add("mixed-partitions-in-batch")
            if o != nxt[p]:
                if o < nxt[p]:
                    vd.add("offset-overlap")
                else:
                    vd.add("offset-gap")
            nxt[p] = o + 1
            if o >= highs[p]:
                vd.add("beyond-high-watermark")
    return nxt


def body_run(shard, *v):
    # every count is decided by a solver fork, then the run is concrete (the symbolic
    # reasoning about the clamp arithmetic for *arbitrary* offsets is body_step's job)
    np_, polls = shard["nparts"], shard["polls"]
    hmax, mdom = shard["hmax"], shard["mdom"]
    vals = [shard["mbs"], shard["reset"]]
    i = 0
    for p in range(np_):
        h0 = pick(v[i], 0, hmax)
        l0 = pick(v[i + 1], 0, h0)
        c0 = pick(v[i + 2], -1, h0)
        vals += [h0, l0, c0]
        i += 3
    for _ in range(polls * np_):
        m = decide(v[i], mdom)
        if m is None:
            return ""
        vals.append(m)
        i += 1
    with untraced():
        return _run(shard, *vals)


def _run(shard, *v):
    np_, polls = shard["nparts"], shard["polls"]
    mbs, reset = v[0], v[1]
    vd = Verdict()
    with untraced():
        broker = install_fake()
        broker.create(TOPIC, np_)
    i = 2
    start_pos = {}
    for p in range(np_):
        h0, l0, c0 = v[i], v[i + 1], v[i + 2]
        i += 3
        part = broker.topics[TOPIC][p]
        part.high, part.low = h0, l0
        if c0 >= 0:
            part.committed["g"] = c0
            start_pos[p] = c0 if c0 > l0 else l0
        elif reset == 1:
            start_pos[p] = l0
        else:
            start_pos[p] = h0          # 'latest' (also the default streamz sets)
    with untraced():
        sc = Scenario(broker, reset, mbs, npartitions=shard.get("npartitions_arg"))
    try:
        sc.start()
        for k in range(polls):
            for p in range(np_):
                broker.produce(TOPIC, p, v[i])
                i += 1
            sc.poll()
        sc.poll()
        sc.poll()
        highs = {p: broker.topics[TOPIC][p].high for p in range(np_)}
        nxt = check_batches(vd, sc.processed, start_pos, highs, mbs)
        # everything produced is eventually delivered (enough polls were made?) - at least progress:
        for p in range(np_):
            if nxt[p] > highs[p]:
                vd.add("beyond-high-watermark")
        # commits: only for completely processed batches, and exactly their end + 1
        ends = set()
        seen = 0
        for (g, p, o, tick) in broker.commit_log:
            ok = False
            for b in sc.processed[:tick]:
                if b and b[0][1] == p and b[-1][2] == o - 1:
                    ok = True
            if not ok:
                vd.add("commit-without-processed-batch")
        if len(broker.commit_log) != len(sc.processed):
            vd.add("commit-count-mismatch")
        for c in broker.calls:
            if c[0] == "Consumer" and c[2] != "false":
                vd.add("auto-commit-not-disabled")
        if sc.loop.errors:
            vd.add("loop-error")
        return vd.result()
    finally:
        sc.close()


# ------------------------------------------------------------------ refresh_partitions
def pre_refresh(shard, *v):
    return True


def body_refresh(shard, *v):
    with untraced():
        return _refresh(shard, *v)


def _refresh(shard, when, h_new, low_new, m0, m1, mbs):
    """refresh_partitions=True: a partition appears at a symbolic poll; it has no committed
    offset, so it is read from its low watermark (streamz switches the reset policy to
    'earliest' after its first poll round), gap-free like every other partition."""
    vd = Verdict()
    when = decide(when, (0, 1, 2))
    h_new = decide(h_new, (0, 1, 3))
    m0 = decide(m0, (0, 2))
    m1 = decide(m1, (0, 1))
    mbs = decide(mbs, (1, 2))
    if None in (when, h_new, m0, m1, mbs):
        return ""
    low_new = decide(low_new, tuple(range(0, h_new + 1)))
    if low_new is None:
        return ""
    broker = install_fake()
    broker.create(TOPIC, 1)
    broker.topics[TOPIC][0].high = 2
    sc = Scenario(broker, shard["reset"], mbs, refresh=True)
    try:
        sc.start()
        for k in range(3):
            if k == when:
                broker.add_partition(TOPIC)
                broker.topics[TOPIC][1].high = h_new
                broker.topics[TOPIC][1].low = low_new
            broker.produce(TOPIC, 0, m0)
            if len(broker.topics[TOPIC]) > 1:
                broker.produce(TOPIC, 1, m1)
            sc.poll()
        for _ in range(10):
            sc.poll()
        start0 = 0 if shard["reset"] == 1 else 2
        highs = {p: broker.topics[TOPIC][p].high for p in range(2)}
        nxt = check_batches(vd, sc.processed, {0: start0, 1: low_new}, highs, mbs)
        for p in range(2):
            if nxt[p] != highs[p]:
                vd.add("messages-never-delivered@partition-%s" % ("added" if p else "initial"))
        return vd.result()
    finally:
        sc.close()


# ------------------------------------------------------------------ one polling step, arbitrary state
class _RecLoop:
    """Records what poll_kafka schedules (checkpoint_emit calls) instead of running it."""

    def __init__(self):
        self.scheduled = []

    def add_callback(self, fn, *a, **k):
        self.scheduled.append((fn, a))


def pre_step(shard, pos, low, high, mbs):
    return low >= 0 and high >= low and mbs >= 1 and (pos >= 0 or pos == -1001)


def body_step(shard, pos, low, high, mbs):
    """One iteration of the polling loop of the real poll_kafka generator from an
    arbitrary state: committed position, watermarks and max_batch_size are unbounded
    symbolic ints (assumed only: 0 <= low <= high, mbs >= 1, pos >= 0 or no commit)."""
    import streamz.sources as S
    vd = Verdict()
    reset = shard["reset"]
    with untraced():
        broker = install_fake()
        broker.create(TOPIC, 1)
        world = World()
    try:
        part = broker.topics[TOPIC][0]
        part.low, part.high = low, high
        if shard.get("committed", True):
            part.committed["g"] = pos
        with untraced():
            src = S.FromKafkaBatched(TOPIC, _params(reset), poll_interval=1, npartitions=1,
                                     max_batch_size=mbs, asynchronous=True, loop=world.io)
            src.consumer = fk.Consumer(src.consumer_params)
            src.stopped = False
            rec = _RecLoop()
            src.loop = rec
        g = S.FromKafkaBatched.poll_kafka.__wrapped__(src)
        first = next(g)          # runs the initialisation and one loop body up to its first yield
        g.close()
        # ---- expected
        p0 = pos if shard.get("committed", True) else -1001
        if p0 == -1001 and reset != 1:
            p0 = high                                  # 'latest' (streamz' default)
        lowest = p0 if p0 > low else low
        emitted = [a[0] for fn, a in rec.scheduled]
        if high > lowest:
            hi = high if high <= lowest + mbs else lowest + mbs
            if len(emitted) != 1:
                vd.add("step-no-batch")
            else:
                e = emitted[0]
                if e[4] != lowest or e[5] != hi - 1:
                    vd.add("step-wrong-range")
                if e[5] - e[4] + 1 > mbs:
                    vd.add("step-over-limit")
                if e[5] >= high:
                    vd.add("step-beyond-high")
            if src.positions[0] != hi:
                vd.add("step-wrong-position")
        else:
            if emitted:
                vd.add("step-spurious-batch")
            if src.positions[0] != p0:
                vd.add("step-wrong-position")
        return vd.result()
    finally:
        world.close()


# ------------------------------------------------------------------ crash / restart
def pre_crash(shard, *v):
    return True


def body_crash(shard, *v):
    with untraced():
        return _crash(shard, *v)


def _crash(shard, mbs, reset, h0, c0, m1, m2, crash_at, *sched):
    np_ = 1
    vd = Verdict()
    mbs = decide(mbs, (shard["mbs"],))
    reset = decide(reset, (shard["reset"],))
    h0 = decide(h0, (shard["h0"],))
    m1 = decide(m1, (0, 1, 3))
    m2 = decide(m2, (0, 2))
    if None in (mbs, reset, h0, m1, m2):
        return ""
    c0 = decide(c0, tuple(range(-1, h0 + 1)))
    if c0 is None:
        return ""
    broker = install_fake()
    broker.create(TOPIC, 1)
    part = broker.topics[TOPIC][0]
    part.high = h0
    if c0 >= 0:
        part.committed["g"] = c0
        start = c0
    else:
        start = 0 if reset == 1 else h0
    consumer = shard.get("consumer", "sync")
    sc = Scenario(broker, reset, mbs, consumer=consumer)
    limit = shard.get("crash_window", 40)

    def crash_check(n):
        if n >= limit:
            return False
        d = decide(crash_at, (n,))
        return d is not None
    sc.loop.crash_check = crash_check
    crashed = False
    try:
        try:
            sc.start()
            _complete_in_order(sc, sched, 0)
            broker.produce(TOPIC, 0, m1)
            sc.poll()
            _complete_in_order(sc, sched, 1)
            broker.produce(TOPIC, 0, m2)
            sc.poll()
            _complete_in_order(sc, sched, 2)
            sc.poll()
        except Crash:
            crashed = True
    finally:
        processed = list(sc.processed)
        sc.close()
    committed = part.committed.get("g", fk.OFFSET_INVALID)
    # at-least-once: every offset below the committed offset (and at/after the start position)
    # belongs to a completely processed batch
    done = set()
    for b in processed:
        for (_, p, o) in b:
            done.add(o)
    if committed != fk.OFFSET_INVALID:
        lo = start
        for o in range(lo, committed):
            if o not in done:
                vd.add("committed-past-unprocessed-message")
        if c0 >= 0 and committed < c0:
            vd.add("commit-went-backwards")
    # restart with the same group id
    sc2 = Scenario(broker, 1 if reset == 1 else 0, mbs, consumer="sync")
    try:
        sc2.start()
        for _ in range(12):     # enough polls for every remaining message even with max_batch_size=1
            sc2.poll()
        got = [o for b in sc2.processed for (_, p, o) in b]
        if committed != fk.OFFSET_INVALID:
            exp_start = committed
        else:
            exp_start = 0 if reset == 1 else part.high
        if got:
            if got[0] != exp_start:
                vd.add("restart-does-not-resume-at-committed-offset")
            if got != list(range(got[0], got[0] + len(got))):
                vd.add("offset-gap-after-restart")
        # everything from the resume point on is (re-)delivered: together with the clause
        # "no offset below the committed one is unprocessed" this is at-least-once.
        # (With reset=latest and no commit yet, the resume point is the broker's high
        # watermark at restart: Kafka's own semantics, not demanded otherwise.)
        for o in range(exp_start, part.high):
            if o not in got:
                vd.add("message-lost-across-restart")
    finally:
        sc2.close()
    return vd.result()


def _complete_in_order(sc, sched, phase):
    """asynchronous consumer: complete pending jobs oldest-first; how many are completed in
    this phase is a schedule choice (the rest stays pending, possibly across the crash)."""
    if not sc.world.jobs:
        return
    n = decide(sched[phase], (0, 1, 2)) if phase < len(sched) else 2
    if n is None:
        n = 0
    for _ in range(n):
        pend = [j for j in sc.world.jobs if not j.fut.done()]
        if not pend:
            break
        pend[0].fut.set_result(None)
        sc.loop.run_ready()


def obligations(tier):
    q = tier == "quick"
    obls = []
    configs = [(1, 2, 2, (0, 1, 2, 3)), (1, 3, 1, (0, 1, 3)), (2, 1, 1, (0, 1, 3)), (2, 2, 1, (0, 2))]
    if not q:
        configs = [(1, 3, 3, (0, 1, 2, 3, 4)), (2, 2, 2, (0, 1, 3)), (3, 1, 1, (0, 2)), (2, 3, 1, (0, 2))]
    for np_, polls, hmax, mdom in configs:
        for mbs in (1, 2, 3):
            for reset in (0, 1, 2):
                for nparg in (None, np_):
                    if nparg is not None and (polls > 1 or mbs != 2):
                        continue
                    obls.append({"name": "run/parts=%d/polls=%d/mbs=%d/reset=%d/npartitions=%s"
                                         % (np_, polls, mbs, reset, nparg),
                                 "body": "body_run", "pre": "pre_run",
                                 "shard": {"nparts": np_, "polls": polls, "npartitions_arg": nparg,
                                           "hmax": hmax, "mdom": list(mdom), "mbs": mbs, "reset": reset},
                                 "types": ["int"] * (3 * np_ + polls * np_), "budget": 900 if q else 3000})
    for reset in (0, 1, 2):
        for committed in (True, False):
            obls.append({"name": "step/reset=%d/%s" % (reset, "committed" if committed else "no-commit"),
                         "body": "body_step", "pre": "pre_step",
                         "shard": {"reset": reset, "committed": committed},
                         "types": ["int"] * 4, "budget": 300})
    for reset in (0, 1):
        obls.append({"name": "refresh_partitions/reset=%d" % reset, "body": "body_refresh", "pre": "pre_refresh",
                     "shard": {"reset": reset}, "types": ["int"] * 6, "budget": 600 if q else 2000})
    for consumer in ("sync", "buffer"):
        for mbs in (1, 2):
            for reset in (0, 1):
                for h0 in ((0, 2) if q else (0, 1, 2, 3)):
                    obls.append({"name": "crash/%s/mbs=%d/reset=%d/h0=%d" % (consumer, mbs, reset, h0),
                                 "body": "body_crash", "pre": "pre_crash",
                                 "shard": {"consumer": consumer, "crash_window": 30 if q else 60,
                                           "mbs": mbs, "reset": reset, "h0": h0},
                                 "types": ["int"] * (7 + 3), "budget": 900 if q else 3000})
    return obls
