"""C05 inductive step obligations (symbolic pre-state). Filled in below."""


def obligations(tier):
    return []
