"""C05 inductive step: histories of any length.

For each buffering node: a short concrete-shaped history (decided by solver forks over a
small value/key domain) brings the node's buffers into a reachable shape; then the
reference counts of every element still referenced are *overwritten with unconstrained
symbolic integers* (assumed only: count >= number of holds the node itself has), and ONE
more real element is pushed through the real update().  Assertion, for every counter:
    count_after - count_before == holds_after - holds_before      (holds from refsem)
and count_after >= 0.  Since the pre-state counts are arbitrary, the step is independent of
how many elements flowed before: by induction over steps (and over pipeline depth, _emit
being balanced) counts equal external holds + the nodes' holds at every quiescent point.
"""
from engine.symutil import Verdict, pick
from harness import syncpipe as SP

UNITS = ["partition2", "partition3", "partition2_key", "punique2_first", "punique2_last", "punique3_first",
         "punique3_last", "punique2_key_last", "window1", "window2", "window2_partial", "window3", "window3_partial",
         "collect", "map", "filter", "unique", "acc", "flatten_after_partition"]
JOINS = ["zip", "combine_latest", "combine_latest_on0", "zip_latest", "union"]


def pre(shard, *v):
    h = shard["h"]
    for x in v[:h + 1]:
        if not (0 <= x <= 2):
            return False
    i = h + 1
    if shard.get("join"):
        for s in v[i:i + h + 1]:
            if not (0 <= s <= 1):
                return False
    return True


def body(shard, *v):
    h = shard["h"]
    if shard.get("join"):
        vals = list(range(h + 1))           # joins never look at the values
    else:
        vals = [pick(x, 0, 2) for x in v[:h + 1]]
    i = h + 1
    srcs = None
    if shard.get("join"):
        srcs = [pick(s, 0, 1) for s in v[i:i + h + 1]]
        i += h + 1
    counts = list(v[i:i + h])            # unconstrained symbolic pre-state counts
    vd = Verdict()
    if shard.get("join"):
        sh = {"template": "multi", "join": shard["join"], "nsrc": 2}
    elif shard["unit"] == "flatten_after_partition":
        sh = {"template": "chain", "units": ["partition2", "flatten"]}
    else:
        sh = {"template": "chain", "units": [shard["unit"]]}
    state = {}

    def on_step(j, obs):
        if j == h - 1:
            # history done: overwrite the live counters with arbitrary values >= their holds
            held = obs.ref.held()
            state["before"] = {}
            for idx, (key, ref) in enumerate(sorted(obs.refs.items())):
                holds = sum(1 for m in held if m.get("ref") is ref)
                c = counts[idx]
                if c < holds:
                    state["skip"] = True      # outside the representation invariant
                    c = holds
                ref.count = c
                ref.history.append(c)
                state["before"][key] = (c, holds)
    flush = [False] * (h + 1)
    if shard.get("flush_last"):
        flush[-1] = True
    obs = SP.run_both(sh, vals, srcs=srcs, nmds=[1] * (h + 1), with_ref=True, on_step=on_step,
                      flushes=flush if shard.get("unit") == "collect" else None)
    if state.get("skip"):
        return ""
    held = obs.ref.held()
    name = shard.get("join") or shard["unit"]
    for key, ref in obs.refs.items():
        holds_after = sum(1 for m in held if m.get("ref") is ref)
        if key in state.get("before", {}):
            c0, h0 = state["before"][key]
        else:
            c0, h0 = 0, 0                     # the element pushed in this step
        if ref.count - c0 != holds_after - h0:
            vd.add("count-delta-differs-from-holds-delta@%s" % name)
        if ref.count < 0:
            vd.add("negative-count@%s" % name)
    return vd.result()


def obligations(tier):
    q = tier == "quick"
    obls = []
    hs = (1, 2) if q else (1, 2, 3)
    units = UNITS if not q else ["partition2", "partition3", "punique2_first", "punique2_last", "punique3_last",
                                 "window2", "window2_partial", "window3", "collect", "filter", "unique"]
    for u in units:
        for h in hs:
            for fl in ((False, True) if u == "collect" else (False,)):
                obls.append({"name": "step/%s/h=%d%s" % (u, h, "/flush" if fl else ""), "module": "harness.c05_step",
                             "body": "body", "pre": "pre", "shard": {"unit": u, "h": h, "flush_last": fl},
                             "types": ["int"] * (h + 1 + h), "budget": 300 if q else 1200})
    for j in JOINS:
        for h in hs:
            obls.append({"name": "step/%s/h=%d" % (j, h), "module": "harness.c05_step", "body": "body", "pre": "pre",
                         "shard": {"join": j, "h": h}, "types": ["int"] * (2 * (h + 1) + h),
                         "budget": 300 if q else 1200})
    return obls
