"""C10 through the asynchronous nodes: the metadata offered to the consumer's node must be the
flat concatenation, in member order, of the metadata of exactly the elements in the
delivered item - also when elements arrive while a flush / emission is suspended on a slow
consumer (blind producers) or a timer fires in between."""
from engine.symutil import Verdict
from harness import asyncpipe as AP


def pre(shard, *c):
    return True


def body(shard, *choices):
    vd = Verdict()
    r = AP.run(shard, choices, with_ref=True, nmd="vary", record_md=True)
    if r.pruned:
        return ""
    name = shard["template"]
    sk = r.t.skeleton
    for (x, md) in r.md_seen:
        members = list(x) if r.t.batched or r.t.kind == "zip2" else [x]
        exp = []
        for m in members:
            tok = m % 1000 if not isinstance(m, tuple) else None
            if tok is None:
                continue
            for j in range(tok % 3):
                exp.append((tok, j))
        if not isinstance(md, list):
            vd.add("metadata-not-a-list@%s" % name)
            continue
        got = []
        nested = False
        for d in md:
            if not isinstance(d, dict):
                nested = True
            else:
                got.append(d.get("id"))
        if nested:
            vd.add("nested-metadata@%s" % name)
        elif got != exp:
            vd.add("wrong-metadata@%s" % name)
    return vd.result()


def obligations(tier):
    q = tier == "quick"
    steps = 7 if q else 8
    obls = []
    for awaiting in (True, False):
        base = {"native": False, "awaiting": awaiting, "items": 4}
        tl = [dict(base, template="buffer", n=1), dict(base, template="delay", timers=True),
              dict(base, template="rate_limit", timers=True), dict(base, template="timed_window", timers=True),
              dict(base, template="partition", n=2), dict(base, template="partition-timeout", n=2, timers=True),
              dict(base, template="map_async", n=2, out_of_order=True)]
        if awaiting:
            tl.append(dict(base, template="zip", n=2, items=2))
        for sh in tl:
            obls.append({"name": "async/%s/%s/steps=%d" % (sh["template"], "await" if awaiting else "blind", steps),
                         "module": "harness.c10_async", "body": "body", "pre": "pre", "shard": sh,
                         "types": ["int"] * steps, "budget": 400 if q else 2400})
    return obls
