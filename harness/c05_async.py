"""C05 (asynchronous holders): counts at quiescence on the virtual loop.

After the drain of a lossless template every emitted element has left the pipeline: its
counter must be zero with the callback fired, and on the way no counter was ever negative
or rose again after zero.  Lossy holders: latest() keeps only its slot (newest element:
count 1, every overwritten one: 0 + callback); timed_window_unique releases what its
keep-rule drops or displaces.
"""
from engine.symutil import Verdict, untraced, decide
from engine.vloop import World
from engine.pipeline import make_metadata
from harness import asyncpipe as AP
from harness.common import drain


def pre(shard, *c):
    return True


def body_async(shard, *choices):
    vd = Verdict()
    r = AP.run(shard, choices, with_ref=True, nmd=shard.get("nmd", 1))
    if r.pruned:
        return ""
    name = shard["template"]
    emitted = set()
    for p in r.producers:
        for x in p.items[:p.i]:
            emitted.add(x)
    unmatched = set()
    if r.t.kind == "zip2":
        m = min(p.i for p in r.producers)
        for p in r.producers:
            for x in p.items[m:p.i]:
                unmatched.add(x)
    for key, ref in r.refs.items():
        x = key[0]
        if ref.went_negative():
            vd.add("negative-count@%s" % name)
        if ref.rose_after_zero():
            vd.add("rise-after-zero@%s" % name)
        if not r.quiet:
            continue
        if x in unmatched:
            if ref.count != 1:
                vd.add("holder-count-wrong@%s" % name)
            continue
        if ref.count != 0:
            vd.add("leak@%s" % name if ref.count > 0 else "under-count@%s" % name)
        elif key not in r.callbacks:
            vd.add("callback-missing@%s" % name)
    return vd.result()


def body_latest(shard, *choices):
    with untraced():
        return _latest(shard, *choices)


def _latest(shard, *choices):
    from streamz import Stream
    vd = Verdict()
    world = World()
    try:
        src = Stream(asynchronous=True)
        node = src.latest()
        world.manual_sink(node, "k")
        cbs, refs = [], {}
        world.loop.run_ready()
        n = 0
        for c in choices:
            c = decide(c, (0, 2, 9))
            if c is None or c == 9:
                break
            if c == 0:
                if n >= 4:
                    return ""
                md = make_metadata(n, 1, True, world.io, cbs, refs=refs)
                world.emit(src, n, metadata=md)
                n += 1
            else:
                p = world.pending()
                if not p:
                    return ""
                world.complete(p[0])
        drain(world, [], max_steps=30)
        for key, ref in refs.items():
            x = key[0]
            if ref.went_negative():
                vd.add("negative-count@latest")
            if ref.rose_after_zero():
                vd.add("rise-after-zero@latest")
            if x == n - 1:
                if ref.count != 1:
                    vd.add("slot-holder-count-wrong@latest")
            else:
                if ref.count != 0:
                    vd.add("leak@latest" if ref.count > 0 else "under-count@latest")
                elif key not in cbs:
                    vd.add("callback-missing@latest")
        return vd.result()
    finally:
        world.close()


def body_twu(shard, *v):
    """timed_window_unique: keys symbolic in {0,1}; all elements arrive inside one window;
    after the tick everything (kept, dropped, displaced) must be released."""
    from engine.symutil import pick
    k = shard["k"]
    keys = [pick(x, 0, 1) for x in v[:k]]
    with untraced():
        from streamz import Stream
        vd = Verdict()
        world = World()
        try:
            src = Stream(asynchronous=True)
            node = src.timed_window_unique(2, key=lambda x: x[0], keep=shard["keep"])
            got = []
            node.sink(got.append)
            cbs, refs = [], {}
            world.loop.run_ready()
            for j in range(k):
                md = make_metadata(j, 1, True, world.io, cbs, refs=refs)
                world.emit(src, (keys[j], j), metadata=md)
            for _ in range(3):
                world.loop.advance()
            for key, ref in refs.items():
                if ref.went_negative():
                    vd.add("negative-count@timed_window_unique")
                if ref.count > 0:
                    vd.add("leak@timed_window_unique")
                elif ref.count == 0 and key not in cbs:
                    vd.add("callback-missing@timed_window_unique")
            return vd.result()
        finally:
            world.close()


def pre_twu(shard, *v):
    for x in v:
        if not (0 <= x <= 1):
            return False
    return True


def obligations(tier):
    q = tier == "quick"
    steps = 7 if q else 8
    obls = []
    for native in (False, True):
        for awaiting in (True, False):
            base = {"native": native, "awaiting": awaiting, "items": 3 if q else 4, "nmd": 1 if q else 2}
            tl = [dict(base, template="buffer", n=1), dict(base, template="buffer", n=2),
                  dict(base, template="delay", timers=True), dict(base, template="rate_limit", timers=True),
                  dict(base, template="timed_window", timers=True),
                  dict(base, template="partition-timeout", n=2, timers=True),
                  dict(base, template="map_async", n=1, out_of_order=True),
                  dict(base, template="map_async", n=2, out_of_order=True),
                  dict(base, template="flatten-direct", out_of_order=True, items=2)]
            if awaiting:
                tl += [dict(base, template="zip", n=2, items=2), dict(base, template="buffer+delay", n=1, timers=True),
                       dict(base, template="timed_window+buffer", n=1, timers=True),
                       dict(base, template="map_async+partition-timeout", n=2, timers=True, out_of_order=True)]
            for sh in tl:
                nm = "async/%s/n=%s/%s/%s/steps=%d" % (sh["template"], sh.get("n", "-"),
                                                       "native" if native else "future",
                                                       "await" if awaiting else "blind", steps)
                obls.append({"name": nm, "module": "harness.c05_async", "body": "body_async", "pre": "pre",
                             "shard": sh, "types": ["int"] * steps, "budget": 400 if q else 2400})
    obls.append({"name": "async/latest/steps=%d" % (7 if q else 9), "module": "harness.c05_async",
                 "body": "body_latest", "pre": "pre", "shard": {}, "types": ["int"] * (7 if q else 9),
                 "budget": 400 if q else 2400})
    for keep in ("first", "last"):
        for k in ((2, 3) if q else (2, 3, 4)):
            obls.append({"name": "async/timed_window_unique/%s/k=%d" % (keep, k), "module": "harness.c05_async",
                         "body": "body_twu", "pre": "pre_twu", "shard": {"k": k, "keep": keep},
                         "types": ["int"] * k, "budget": 300})
    return obls
