"""C05 - reference counts equal live holders, return to zero, never negative.

(1) Bounded runs: the C01 pipelines with reference counters on the inputs; after every
    emit (every quiescent point of a synchronous pipeline) each counter must equal the
    number of times the reference interpreter says a node still legitimately holds it,
    the completion callback must have fired exactly for the counters that dropped to
    zero, no counter is ever negative or rises again after zero.
(2) Inductive step (histories of any length): one real update()/flush() of a buffering
    node from a *symbolic pre-state* whose counters are unconstrained symbolic ints:
    the change of each counter equals the change of the node's own holds, and a counter
    that satisfied count >= holds stays non-negative.
(3) Asynchronous holders on the virtual loop (buffer, delay, rate_limit, map_async,
    partition with timeout, timed_window, timed_window_unique, latest): see c04 world.
"""
from engine.symutil import Verdict, pick, pick_bool, untraced
from harness import syncpipe as SP
from harness import c01

META = {
    "bounds": {
        "quick": "bounded: every unit alone (4 elements), chains of 2 core units (3 elements), diamonds, 2/3-source "
                 "joins; 0-2 counters per element (symbolic); inductive step: partition, partition_unique, "
                 "sliding_window, zip, combine_latest, zip_latest, collect with buffers of <= 2 entries and "
                 "unconstrained symbolic counter values",
        "thorough": "bounded: chains of 2 core units with 3 key values (3 elements), units alone 6 elements; inductive: histories <= 3; async schedules <= 8 steps",
    },
    "outside": ["the same RefCounter attached to two different elements (aliasing)"],
    "stubs": ["event loop: engine/vloop.py"],
    "assumptions": ["holder convention of the existing tests (see engine/refsem.py held())"],
}


def pre_pipe(shard, *v):
    k = shard["k"]
    if not c01.pre_pipe(shard, *v[:len(v) - k]):
        return False
    lo, hi = shard.get("nmd_range", (0, 2))
    for m in v[len(v) - k:]:
        if not (lo <= m <= hi):
            return False
    return True


def check_counts(vd, obs, kindof):
    held = obs.ref.held()
    for key, ref in obs.refs.items():
        d_owner = None
        expect = 0
        for m in held:
            if m.get("ref") is ref:
                expect += 1
        if ref.count != expect:
            if ref.count > expect:
                vd.add("leak@%s" % kindof)
            else:
                vd.add("under-count@%s" % kindof)
        if ref.went_negative():
            vd.add("negative-count@%s" % kindof)
        if ref.rose_after_zero():
            vd.add("rise-after-zero@%s" % kindof)
        fired = key in obs.callbacks
        if ref.reached_zero() and not fired:
            vd.add("callback-missing@%s" % kindof)
        if fired and not ref.reached_zero():
            vd.add("callback-without-zero@%s" % kindof)


def body_pipe(shard, *v):
    k = shard["k"]
    vals = list(v[:k])
    rest = v[k:]
    nsrc = shard.get("nsrc", 1)
    srcs = None
    if nsrc > 1:
        srcs = [pick(s, 0, nsrc - 1) for s in rest[:k]]
        rest = rest[k:]
    flushes = None
    if shard.get("flush"):
        flushes = [pick_bool(f) for f in rest[:k]]
        rest = rest[k:]
    lo, hi = shard.get("nmd_range", (0, 2))
    nmds = [pick(m, lo, hi) for m in rest[:k]]
    # Values only steer control flow here.  Where some node inspects them they range over
    # the small domain and are decided by solver forks; where no node inspects them
    # (value-independence is what C01 establishes with unbounded symbolic ints) they are
    # replaced by distinct tokens.  After that the path is concrete: run it untraced.
    if shard.get("small", True):
        vals = [pick(x, 0, shard.get("dom", c01.DOM)) for x in vals]
    else:
        vals = list(range(len(vals)))
    with untraced():
        return _run(shard, vals, srcs, flushes, nmds)


def _kindof(shard):
    spec = SP.build_spec(shard)
    kinds = [k for k, _, _ in spec if k != "source"]
    return "+".join(sorted(set(kinds)))


def _run(shard, vals, srcs, flushes, nmds):
    vd = Verdict()
    kindof = _kindof(shard)

    def on_step(i, obs):
        check_counts(vd, obs, kindof)
    obs = SP.run_both(shard, vals, srcs=srcs, flushes=flushes, nmds=nmds, with_ref=True,
                      on_step=on_step)
    check_counts(vd, obs, kindof)
    return vd.result()


def _obl(name, shard, k, budget, nsrc=1, flush=False):
    o = c01._pipe_obl(name, shard, k, budget, nsrc=nsrc, flush=flush)
    o["types"] = o["types"] + ["int"] * k
    return o


def obligations(tier):
    from harness import c05_step
    q = tier == "quick"
    B = 300 if q else 1500
    obls = []
    kA = 4 if q else 6
    for (n,) in SP.chains(1):
        small = SP.inspects([n])
        kk = kA if not small else (3 if q else 4)
        if n == "collect":
            kk = 4
        obls.append(_obl("A/%s/k=%d" % (n, kk), {"template": "chain", "units": [n], "small": small},
                         kk, B, flush=(n == "collect")))
    # a key re-seen inside an open batch with another key in between needs n >= 3 and 4 elements
    for n3 in ("punique3_last", "punique3_first"):
        obls.append(_obl("A/%s/k=4/one-dict-each" % n3, {"template": "chain", "units": [n3], "small": True,
                                                       "nmd_range": (1, 1)}, 4, B))
    for ch in SP.chains(2, SP.CORE):
        small = SP.inspects(ch)
        kk = 3
        obls.append(_obl("B/chain/%s/k=%d" % ("+".join(ch), kk),
                         {"template": "chain", "units": list(ch), "small": small,
                          "dom": 1 if q else 2}, kk, B, flush=("collect" in ch)))
    if False:
        for ch in SP.chains(3, SP.CORE):
            if "collect" in ch and SP.hashes(ch):
                continue
            obls.append(_obl("B/chain/%s/k=3" % "+".join(ch),
                             {"template": "chain", "units": list(ch), "small": SP.inspects(ch)}, 3, B,
                             flush=("collect" in ch)))
    for a, b in ((None, "filter"), ("map", "acc"), ("filter", "slice_1_n_2"), ("map", None)):
        for j in sorted(SP.JOINS):
            obls.append(_obl("B/diamond/%s|%s->%s/k=3" % (a, b, j),
                             {"template": "diamond", "a": a, "b": b, "join": j,
                              "small": SP.inspects([x for x in (a, b) if x])}, 3, B))
    for j in sorted(SP.JOINS):
        obls.append(_obl("B/multi2/%s/k=%d" % (j, 3 if q else 5),
                         {"template": "multi", "join": j, "nsrc": 2, "small": False}, 3 if q else 5, B, nsrc=2))
    for j in sorted(SP.JOINS3):
        obls.append(_obl("B/multi3/%s/k=%d" % (j, 3 if q else 4),
                         {"template": "multi", "join": j, "nsrc": 3, "small": False}, 3 if q else 4, B, nsrc=3))
    obls.extend(c05_step.obligations(tier))
    from harness import c05_async
    obls.extend(c05_async.obligations(tier))
    return obls
