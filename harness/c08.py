"""C08 - time windows conserve elements and honour their deadline.

Symbolic *time*: every arrival gap, the interval / timeout, every consumer handling
duration, whether an arrival that coincides with a timer goes before or after it, keys.
Real code executed: timed_window.update/cb, timed_window_unique.update/cb,
partition.update/_flush (call_later / cancel), Stream._emit, sink - on the virtual loop.
"""
from engine.vloop import World
from engine.symutil import Verdict, untraced, pick, pick_bool

META = {
    "bounds": {
        "quick": "partition(timeout): k<=3 arrivals; timed_window / timed_window_unique: k<=2 (sharded); gaps sym in [0,4], "
                 "interval/timeout sym in [1,3], consumer durations sym in [0,3], partition size n in {1,2,3} (sharded), "
                 "keys sym in {0,1}, same-instant order sym",
        "thorough": "k<=4 arrivals for partition (3 into a slow consumer), k<=3 for timed_window with gaps in [0,3], "
                    "interval in [1,2]; timed_window_unique k<=2",
    },
    "outside": ["clock drift", "convert_interval string parsing (pandas)", "awaiting producers (covered in C02/C03)"],
    "stubs": ["clock: streamz.core.time / IOLoop.time -> virtual integer tick", "event loop: engine/vloop.py"],
    "assumptions": ["time is non-decreasing", "same-instant timers fire in creation order"],
}

T0 = 100


def pre(shard, *v):
    k = shard["k"]
    gaps, iv = v[:k], v[k]
    for g in gaps:
        if not (0 <= g <= shard.get('gmax', 4)):
            return False
    if not (1 <= iv <= shard.get('imax', 3)):
        return False
    rest = v[k + 1:]
    i = 0
    if shard.get("slow"):
        for d in rest[i:i + k + 1]:
            if not (0 <= d <= shard.get('dmax', 3)):
                return False
        i += k + 1
    if shard.get("keys"):
        for key in rest[i:i + k]:
            if not (0 <= key <= 1):
                return False
    return True


def _sink(world, node, durs, batches):
    loop = world.loop

    def consume(x):
        i = len(batches)
        world.seq = getattr(world, "seq", 0) + 1
        rec = {"x": list(x) if isinstance(x, list) else x, "t": loop.now, "done": None, "seq": world.seq}
        batches.append(rec)
        d = durs[i] if (durs is not None and i < len(durs)) else 0
        fut = loop.create_future()

        def fin():
            rec["done"] = loop.now
            fut.set_result(None)
        if durs is None or d <= 0:
            rec["done"] = loop.now
            fut.set_result(None)
        else:
            loop.call_later(d, fin)
        return fut
    return node.sink(consume)


def body(shard, *v):
    k = shard["k"]
    kind = shard["kind"]
    gaps, iv = v[:k], v[k]
    rest = v[k + 1:]
    durs = None
    i = 0
    if shard.get("slow"):
        durs = rest[i:i + k + 1]
        i += k + 1
    keys = None
    if shard.get("keys"):
        keys = [pick(x, 0, 1) for x in rest[i:i + k]]   # keys are hashed: concretise by forks
        i += k
    ties = [pick_bool(b) for b in rest[i:i + k]]
    n = shard.get("n", 2)
    vd = Verdict()
    with untraced():
        from streamz import Stream
        world = World(start=T0)
        loop = world.loop
        src = Stream(asynchronous=True)
        if kind == "timed_window":
            node = src.timed_window(iv)
        elif kind == "timed_window_unique":
            node = src.timed_window_unique(iv, key=(lambda x: x[0]), keep=shard.get("keep", "first"))
        else:
            kw = {"key": (lambda x: x[0])} if keys is not None else {}
            node = src.partition(n, timeout=iv, **kw)
        batches = []
        _sink(world, node, durs, batches)
    try:
        loop.run_ready()
        t = T0
        arr = {}
        arr_seq = {}
        items = []
        for j in range(k):
            t = t + gaps[j]
            loop.advance_to(t, inclusive=not ties[j])
            x = (keys[j] if keys is not None else 0, j)
            arr[j] = loop.now
            items.append(x)
            world.seq = getattr(world, "seq", 0) + 1
            arr_seq[j] = world.seq
            world.emit(src, x)
        # let every timer fire until everything pushed has been emitted (bounded)
        for _ in range(4 * k + 6):
            got = sum(len(b["x"]) for b in batches)
            if kind != "timed_window_unique" and got >= k and all(b["done"] is not None for b in batches):
                break
            if kind == "timed_window_unique" and not node._buffer and \
                    all(b["done"] is not None for b in batches):
                break   # (reads the node's buffer only to stop driving the clock)
            if not loop.advance():
                break
        for _ in range(2):   # two more ticks: duplicates / spurious batches would show up
            loop.advance()
        name = kind
        flat = [x for b in batches for x in b["x"]]
        # ---- conservation / order
        if kind == "timed_window":
            if flat != items:
                vd.add("not-conserved@timed_window")
        elif kind == "partition":
            if sorted(flat, key=lambda x: x[1]) != items or len(flat) != k:
                vd.add("not-conserved@partition")
            for b in batches:
                xs = list(b["x"])
                if len(xs) == 0:
                    vd.add("empty-partition@partition")
                if len(xs) > n:
                    vd.add("oversized-partition@partition")
                if keys is not None:
                    for x in xs:
                        if x[0] != xs[0][0]:
                            vd.add("mixed-keys@partition")
                idx = [x[1] for x in xs]
                if idx != sorted(idx):
                    vd.add("reordered@partition")
            # per key arrival order across batches
            for key in (0, 1):
                seq = [x[1] for x in flat if x[0] == key]
                if seq != sorted(seq):
                    vd.add("reordered@partition")
        else:
            # timed_window_unique: batch emitted at T contains what arrived since the previous
            # emission, de-duplicated by key with the keep rule, in (kept) arrival order
            _check_unique(vd, batches, items, arr, shard.get("keep", "first"))
        # ---- exact membership (timed_window, timed_window_unique): element j belongs to the first
        # batch emitted after its arrival (in event order) - no other batch, and no later one
        if kind in ("timed_window", "timed_window_unique"):
            exp = [[] for _ in batches]
            unassigned = 0
            for j in range(k):
                home = None
                for bi, b in enumerate(batches):
                    if b["seq"] > arr_seq[j]:
                        home = bi
                        break
                if home is None:
                    unassigned += 1
                else:
                    exp[home].append(items[j])
            if unassigned:
                vd.add("element-never-emitted@%s" % name)
            for bi, b in enumerate(batches):
                want = exp[bi]
                if kind == "timed_window_unique":
                    keep = shard.get("keep", "first")
                    ded = []
                    for x in want:
                        same = [y for y in ded if y[0] == x[0]]
                        if keep == "first":
                            if not same:
                                ded.append(x)
                        else:
                            for y in same:
                                ded.remove(y)
                            ded.append(x)
                    want = ded
                if list(b["x"]) != want:
                    vd.add("wrong-batch-contents@%s" % name)
        # ---- deadline
        for b in batches:
            for x in b["x"]:
                j = x[1]
                ta, te = arr[j], b["t"]
                if te < ta:
                    vd.add("emitted-before-arrival@%s" % name)
                busy = 0
                for c in batches:
                    if c is b:
                        continue
                    s0, s1 = c["t"], c["done"]
                    if s1 is None:
                        s1 = te
                    lo_, hi_ = (s0 if s0 > ta else ta), (s1 if s1 < te else te)
                    if hi_ > lo_:
                        busy = busy + (hi_ - lo_)
                if te - ta - busy > iv:
                    vd.add("deadline-missed@%s" % name)
        # ---- partition: a partial batch is emitted by *its own* timer only
        if kind == "partition":
            for b in batches:
                xs = list(b["x"])
                if 0 < len(xs) < n:
                    first = min(x[1] for x in xs)
                    if b["t"] != arr[first] + iv:
                        vd.add("spurious-partial-partition@partition")
        vd.check(not loop.errors, "loop-error@%s" % name)
        return vd.result()
    finally:
        world.close()


def _check_unique(vd, batches, items, arr, keep):
    """Every pushed element is either in exactly one batch or was legitimately displaced by
    the keep rule inside its own window; batches contain no two elements with equal key."""
    name = "timed_window_unique"
    flat = [x for b in batches for x in b["x"]]
    for x in flat:
        if flat.count(x) != 1:
            vd.add("duplicated@%s" % name)
    times = [b["t"] for b in batches]
    # assign every item to the first batch emitted at or after its arrival (strictly after if
    # the item was pushed after that tick ran at the same instant): use membership of neighbours
    for b in batches:
        ks = [x[0] for x in b["x"]]
        if len(ks) != len(set(ks)):
            vd.add("duplicate-key-in-batch@%s" % name)
        idx = [x[1] for x in b["x"]]
        if keep == "first" and idx != sorted(idx):
            vd.add("reordered@%s" % name)
    for j, x in enumerate(items):
        if x in flat:
            continue
        # dropped: must be justified by a same-key element in a batch that x could belong to
        ok = False
        for b in batches:
            for y in b["x"]:
                if y[0] == x[0] and y[1] != j:
                    if keep == "first" and y[1] < j and b["t"] >= arr[j]:
                        ok = True
                    if keep == "last" and y[1] > j and arr[y[1]] <= b["t"]:
                        ok = True
        if not ok:
            vd.add("lost@%s" % name)


def obligations(tier):
    q = tier == "quick"
    B = 400 if q else 3000
    dom = {}
    obls = []

    def add(name, shard, nint, k):
        sh = dict(dom)
        sh.update(shard)
        obls.append({"name": name, "body": "body", "pre": "pre", "shard": sh,
                     "types": ["int"] * nint + ["bool"] * k, "budget": B})
    kp = 3 if q else 4
    kw = 2 if q else 3
    small = {} if q else {"gmax": 3, "imax": 2, "dmax": 2}     # domains of the 3-arrival window shards
    for k in range(1, kp + 1):
        for slow in (False, True):
            if slow and k > 3:
                continue
            nsym = k + 1 + (k + 1 if slow else 0)
            if k <= kw and not (slow and k > (1 if q else 2)):
                sh = {"kind": "timed_window", "k": k, "slow": slow}
                if k == 3 or (slow and k == 2):
                    sh.update(small)
                add("timed_window/k=%d/%s" % (k, "slow" if slow else "instant"), sh, nsym, k)
            for n in (1, 2, 3):
                if n > k + 1:
                    continue
                if slow and k == 3 and (q or n != 2):
                    continue      # (3 arrivals into a slow consumer: thorough tier; quick covers it by C02 schedules)
                sh = {"kind": "partition", "k": k, "slow": slow, "n": n}
                if slow and k == 3:
                    sh.update({"gmax": 2, "imax": 2, "dmax": 2})
                add("partition/n=%d/k=%d/%s" % (n, k, "slow" if slow else "instant"), sh, nsym, k)
        if k <= (2 if q else 3):
            for n in (1, 2):
                add("partition-keys/n=%d/k=%d" % (n, k),
                    {"kind": "partition", "k": k, "slow": False, "n": n, "keys": True}, k + 1 + k, k)
        if k <= 2:       # (3 arrivals did not finish within 3000 s of CPU: outside both tiers)
            for keep in ("first", "last"):
                sh = {"kind": "timed_window_unique", "k": k, "slow": False, "keys": True, "keep": keep}
                if q or k == 3:
                    sh["imax"] = 2
                    sh["gmax"] = 3
                add("timed_window_unique/%s/k=%d" % (keep, k), sh, k + 1 + k, k)
    return obls
