"""C19 - one event loop per pipeline; async pipelines never leave the caller's loop.

Pure construction-time logic.  Symbolic configuration: for every node of a chain built
through the fluent API, asynchronous in {None, True, False} and loop in {none, A, B}
(A = the caller's current loop, B = another loop), where the node's constructor accepts
them.  Sharded: the node classes (plain / loop-requiring / every source type that
constructs offline).  Thread creation and IOLoop construction inside streamz.core are
observed through recorders (no real thread is ever started).
Oracle: a 20-line model of the statement (pipeline has one (loop, mode); explicit
conflicting requests raise ValueError; declared asynchronous => caller's loop, no
thread; loop-requiring and nothing given/inherited => the shared background loop).
"""
from engine.vloop import World
from engine.symutil import Verdict, untraced, pick

META = {
    "bounds": {"quick": "chains of 2 nodes: 6 entry kinds x 9 node kinds x all (asynchronous, loop) combinations; chains "
                        "of 3 for a core subset; diamond (two entries joined by union/zip) with per-entry settings",
               "thorough": "all chains of 3 nodes"},
    "outside": ["connect() of separately built nodes (not 'created through the fluent API')",
                "a Dask default client being present (get_io_loop would return its loop)",
                "sources that need the network or a subprocess to construct",
                "from_textfile(...).buffer(n): the instance attribute `buffer` (its text) shadows the method"],
    "stubs": ["streamz.core.threading.Thread -> recorder", "streamz.core.IOLoop -> recorder returning the virtual "
              "loop for current() and a fake background loop for IOLoop()"],
    "assumptions": ["mode is compared by its observable effect: truthy = asynchronous; None and False both mean blocking"],
}

ENTRY = ["Stream", "from_iterable", "from_periodic", "from_textfile", "filenames", "from_q"]
NODES = ["map", "buffer", "delay", "rate_limit", "timed_window", "partition", "latest", "map_async", "sink"]
ACCEPTS = {"Stream", "from_iterable", "from_periodic", "from_textfile", "filenames", "from_q",
           "buffer", "delay", "rate_limit", "timed_window", "partition", "latest", "sink"}
NEEDS_LOOP = {"from_iterable", "from_periodic", "from_textfile", "filenames", "from_q",
              "buffer", "delay", "rate_limit", "timed_window", "partition", "latest", "map_async"}


class FakeBg:
    """Stand-in for the shared background IOLoop (never runs anything)."""

    def __init__(self, rec):
        self.rec = rec
        self.calls = []
        rec["bg_loops"].append(self)

    def add_callback(self, cb, *a, **k):
        self.calls.append(("add_callback", cb))

    def call_later(self, d, cb, *a, **k):
        self.calls.append(("call_later", cb))

    def start(self):
        pass

    @property
    def asyncio_loop(self):
        raise RuntimeError("background loop used directly")


class OtherLoop(FakeBg):
    pass


def install_recorders(world, rec):
    import streamz.core as core

    class FakeThread:
        def __init__(self, target=None, **k):
            self.target = target
            self.daemon = False
            rec["threads"].append(self)

        def start(self):
            rec["started"] += 1

    class FakeThreading:
        Thread = FakeThread
        Event = core.threading.Event
        local = core.threading.local

    class FakeIOLoopCls:
        def __new__(cls, *a, **k):
            bg = FakeBg(rec)
            if k.get("make_current", True):
                # tornado semantics: without make_current=False the new loop becomes the
                # constructing thread's current loop
                rec["current_override"] = bg
            return bg

        @staticmethod
        def current(*a, **k):
            return rec.get("current_override") or world.io
    saved = (core.threading, core.IOLoop, core._dask_default_client)
    core.threading = FakeThreading
    core.IOLoop = FakeIOLoopCls
    core._dask_default_client = None
    del core._io_loops[:]
    return saved


def restore(saved):
    import streamz.core as core
    core.threading, core.IOLoop, core._dask_default_client = saved
    del core._io_loops[:]


def pre(shard, *v):
    for x in v:
        if not (0 <= x <= 8):
            return False
    return True


def make(kind, up, kw):
    from streamz import Stream
    import queue
    if kind == "Stream":
        return Stream(**kw)
    if kind == "from_iterable":
        return Stream.from_iterable([1, 2], **kw)
    if kind == "from_periodic":
        return Stream.from_periodic(lambda: 1, 1, **kw)
    if kind == "from_textfile":
        from harness.c18 import FakeFile
        return Stream.from_textfile(FakeFile([]), **kw)
    if kind == "filenames":
        return Stream.filenames("/nonexistent-verif/*", **kw)
    if kind == "from_q":
        return Stream.from_q(queue.Queue(), **kw)
    if kind == "map":
        return up.map(lambda x: x)
    if kind == "map_async":
        async def f(x):
            return x
        return up.map_async(f)
    if kind == "buffer":
        return up.buffer(2, **kw)
    if kind == "delay":
        return up.delay(1, **kw)
    if kind == "rate_limit":
        return up.rate_limit(1, **kw)
    if kind == "timed_window":
        return up.timed_window(1, **kw)
    if kind == "partition":
        return up.partition(2, **kw)
    if kind == "latest":
        return up.latest(**kw)
    if kind == "sink":
        return up.sink(lambda x: None, **kw)
    raise ValueError(kind)


def body(shard, *v):
    kinds = shard["kinds"]
    cfg = [pick(x, 0, 8) for x in v]
    with untraced():
        return _body(kinds, cfg)


def _body(kinds, cfg):
    vd = Verdict()
    world = World()
    rec = {"threads": [], "started": 0, "bg_loops": []}
    saved = install_recorders(world, rec)
    try:
        A = world.io
        B = OtherLoop({"bg_loops": []})
        # model state of the one pipeline
        m_mode = None
        m_loop = None
        m_bg = False
        nodes = []
        expect_error = False
        for i, kind in enumerate(kinds):
            c = cfg[i]
            a = (None, True, False)[c % 3]
            l = (None, A, B)[c // 3]
            if kind not in ACCEPTS:
                a, l = None, None
            kw = {}
            if a is not None:
                kw["asynchronous"] = a
            if l is not None:
                kw["loop"] = l
            # ---- model
            if a is not None:
                if m_mode is not None and m_mode != a:
                    expect_error = True
                else:
                    m_mode = a
            if not expect_error and l is not None:
                if m_loop is not None and m_loop is not l:
                    expect_error = True
                else:
                    m_loop = l
            if not expect_error:
                if kind in NEEDS_LOOP and m_loop is None and m_mode is None:
                    m_mode = False
                if m_loop is None and m_mode is not None:
                    if m_mode:
                        m_loop = A
                    else:
                        m_loop = "BG"
                        m_bg = True
            # ---- real
            try:
                node = make(kind, nodes[-1] if nodes else None, kw)
                raised = None
            except ValueError as exc:
                raised = exc
            if expect_error:
                if raised is None:
                    vd.add("conflict-not-rejected/%s" % ("mode" if a is not None and m_mode is not None
                                                         and m_mode != a else "loop"))
                return vd.result()
            if raised is not None:
                vd.add("unexpected-ValueError@%s" % kind)
                return vd.result()
            nodes.append(node)
        # ---- compare every node with the model
        bg = rec["bg_loops"][0] if rec["bg_loops"] else None
        if len(rec["bg_loops"]) > 1:
            vd.add("several-background-loops")
        for kind, node in zip(kinds, nodes):
            if m_loop is None:
                if node.loop is not None:
                    vd.add("loop-out-of-nowhere@%s" % kind)
            elif m_loop == "BG":
                if node.loop is None or node.loop is not bg:
                    vd.add("not-on-shared-background-loop@%s" % kind)
            else:
                if node.loop is not m_loop:
                    if bool(m_mode) and node.loop is bg and bg is not None:
                        vd.add("async-node-on-background-loop@%s" % kind)
                    else:
                        vd.add("loop-not-inherited@%s" % kind)
            if bool(node.asynchronous) != bool(m_mode):
                vd.add("mode-not-inherited@%s" % kind)
        if m_mode:
            if rec["threads"] or rec["started"]:
                vd.add("async-pipeline-started-a-thread")
            for b in rec["bg_loops"]:
                if b.calls:
                    vd.add("async-callback-on-background-loop")
        if m_bg:
            if rec["started"] != 1:
                vd.add("background-thread-not-started-once")
        elif not m_mode and rec["started"]:
            vd.add("thread-started-without-need")
        return vd.result()
    finally:
        restore(saved)
        world.close()


def body_two(shard, *v):
    cfg = [pick(x, 0, 8) for x in v]
    with untraced():
        return _two(shard, cfg)


def _two(shard, cfg):
    """A blocking pipeline is built first (this creates the shared background loop), then an
    unrelated pipeline is declared asynchronous in the same thread: it must be on the caller's
    loop, not on the background one, and must not start a thread."""
    vd = Verdict()
    world = World()
    rec = {"threads": [], "started": 0, "bg_loops": []}
    saved = install_recorders(world, rec)
    try:
        A = world.io
        first = make("Stream", None, {})
        make(shard["blocking"], first, {})
        started0 = rec["started"]
        c = cfg[0]
        a = (None, True, False)[c % 3]
        l = (None, A, None)[c // 3]
        kw = {}
        if a is not None:
            kw["asynchronous"] = a
        if l is not None:
            kw["loop"] = l
        try:
            e = make(shard["entry"], None, kw)
            n = make(shard["node"], e, {})
        except ValueError:
            if a is False and l is A:
                return vd.result()
            vd.add("unexpected-ValueError@two-pipelines")
            return vd.result()
        if a is True or l is A:
            for node, kind in ((e, shard["entry"]), (n, shard["node"])):
                if node.loop is not A:
                    vd.add("async-node-on-background-loop@%s" % kind)
            if a is True and rec["started"] != started0:
                vd.add("async-pipeline-started-a-thread")
        return vd.result()
    finally:
        restore(saved)
        world.close()


class Comp:
    """Model of one connected pipeline: at most one loop and one mode."""

    def __init__(self):
        self.loop = None
        self.mode = None
        self.parent = None

    def find(self):
        c = self
        while c.parent is not None:
            c = c.parent
        return c


JOIN_CFG = (0, 1, 2, 3, 6)      # nothing | asynchronous=True | asynchronous=False | loop=A | loop=B


def pre_join(shard, *v):
    for x in v:
        if not (0 <= x <= 4):
            return False
    return True


def body_join(shard, *v):
    picked = [pick(x, 0, 4) for x in v]
    cfg = [JOIN_CFG[picked[0]], JOIN_CFG[picked[1]], 0, JOIN_CFG[picked[2]], JOIN_CFG[picked[3]]]
    with untraced():
        return _join(shard, cfg)


def _join(shard, cfg):
    """Two branches joined by a multi-input node, then a node attached late to the branch
    that had no loop: the loop/mode of the joined pipeline must be respected there too."""
    vd = Verdict()
    world = World()
    rec = {"threads": [], "started": 0, "bg_loops": []}
    saved = install_recorders(world, rec)
    try:
        A = world.io
        B = OtherLoop({"bg_loops": []})

        def args_of(c, kind):
            a = (None, True, False)[c % 3]
            l = (None, A, B)[c // 3]
            if kind not in ACCEPTS and kind not in ("union", "zip"):
                a, l = None, None
            kw = {}
            if a is not None:
                kw["asynchronous"] = a
            if l is not None:
                kw["loop"] = l
            return a, l, kw

        comps = {}
        nodes = {}
        order = [("e0", shard["e0"], []), ("e1", "Stream", []), ("a", "map", ["e1"]),
                 ("J", shard["join"], ["a", "e0"]), ("L", shard["late"], ["e1"])]
        for i, (name, kind, ups) in enumerate(order):
            a, l, kw = args_of(cfg[i], kind)
            # ---- model: merge the upstream components, then apply the explicit request
            comp = Comp()
            err = False
            for u in ups:
                cu = comps[u].find()
                if cu is comp:
                    continue
                if cu.loop is not None and comp.loop is not None and cu.loop is not comp.loop:
                    err = True
                if cu.mode is not None and comp.mode is not None and bool(cu.mode) != bool(comp.mode):
                    err = True
                if comp.loop is None:
                    comp.loop = cu.loop
                if comp.mode is None:
                    comp.mode = cu.mode
                cu.parent = comp
            if a is not None:
                if comp.mode is not None and comp.mode != a:
                    err = True
                else:
                    comp.mode = a
            if l is not None:
                if comp.loop is not None and comp.loop is not l:
                    err = True
                else:
                    comp.loop = l
            if not err:
                if kind in NEEDS_LOOP and comp.loop is None and comp.mode is None:
                    comp.mode = False
                if comp.loop is None and comp.mode is not None:
                    comp.loop = A if comp.mode else "BG"
            comps[name] = comp
            # ---- real
            try:
                if kind in ("union", "zip"):
                    node = getattr(nodes[ups[0]], kind)(nodes[ups[1]], **kw)
                else:
                    node = make(kind, nodes[ups[0]] if ups else None, kw)
                raised = False
            except ValueError:
                raised = True
            if err:
                # the merge of two branches that already disagree is only detectable when the
                # join is built; a conflict must never pass silently
                if not raised:
                    vd.add("conflict-not-rejected@%s" % name)
                return vd.result()
            if raised:
                vd.add("unexpected-ValueError@%s" % name)
                return vd.result()
            nodes[name] = node
        bg = rec["bg_loops"][0] if rec["bg_loops"] else None
        for name, kind, ups in order:
            c = comps[name].find()
            n = nodes[name]
            want = bg if c.loop == "BG" else c.loop
            if n.loop is not None and want is not None and n.loop is not want:
                vd.add("pipeline-split-across-loops@%s" % name)
            if kind in NEEDS_LOOP and n.loop is not want:
                vd.add("loop-requiring-node-on-wrong-loop@%s" % name)
        return vd.result()
    finally:
        restore(saved)
        world.close()


def obligations(tier):
    q = tier == "quick"
    obls = []

    def add(kinds):
        obls.append({"name": "chain/" + "+".join(kinds), "body": "body", "pre": "pre",
                     "shard": {"kinds": list(kinds)}, "types": ["int"] * len(kinds),
                     "budget": 300 if q else 1500})
    for e in ENTRY:
        add([e])
        for n in NODES:
            if e == "from_textfile" and n == "buffer":
                continue   # from_textfile stores its text in self.buffer, shadowing the method
            add([e, n])
    core3 = [("Stream", "map", "buffer"), ("Stream", "buffer", "sink"), ("Stream", "map", "sink"),
             ("from_iterable", "map", "buffer"), ("from_periodic", "buffer", "sink"),
             ("Stream", "partition", "latest"), ("Stream", "map_async", "buffer"),
             ("from_q", "rate_limit", "sink"), ("Stream", "timed_window", "delay")]
    if q:
        for k in core3:
            add(k)
    else:
        for e in ENTRY:
            for n1 in NODES:
                if n1 == "sink":
                    continue
                for n2 in NODES:
                    if e == "from_textfile" and n1 == "buffer":
                        continue
                    add([e, n1, n2])
    for blocking in ("timed_window", "buffer", "partition"):
        for entry in ("Stream", "from_iterable", "from_periodic"):
            for node in ("map", "buffer"):
                obls.append({"name": "two-pipelines/%s-then-%s+%s" % (blocking, entry, node), "body": "body_two",
                             "pre": "pre", "shard": {"blocking": blocking, "entry": entry, "node": node},
                             "types": ["int"], "budget": 300})
    for e0 in ("Stream", "from_iterable"):
        for join in ("union", "zip"):
            for late in (("timed_window", "map") if q else ("timed_window", "buffer", "map", "sink")):
                obls.append({"name": "join/%s/%s/late=%s" % (e0, join, late), "body": "body_join", "pre": "pre_join",
                             "shard": {"e0": e0, "join": join, "late": late}, "types": ["int"] * 4,
                             "budget": 600 if q else 1500})
    return obls
