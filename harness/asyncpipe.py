"""Asynchronous-pipeline harness core shared by C02 (delivery), C03 (back-pressure), C04
(checkpoint safety), C05 (counts at quiescence) and C10 (metadata through async nodes).

A run = build one template on the virtual loop, execute a symbolic schedule
(harness/common.py), drain, return the World with its logs.  Payloads are distinct
tokens (producer p emits p*100+i): these nodes never look at them; what is symbolic is
the schedule - and, for timing nodes, the intervals.
"""
from engine.vloop import World
from engine.symutil import untraced, pick
from engine.pipeline import make_metadata, Rec
from harness.common import Producer, run_schedule, drain, pre_schedule, Pruned


def inc1000(x):
    return x + 1000


class JobFailed(Exception):
    pass


class T:
    """A built template."""

    def __init__(self):
        self.sources = []
        self.sinks = {}          # consumer name -> sink node
        self.nodes = {}          # name -> node under test
        self.kind = "linear"     # linear | zip2 | union2
        self.skeleton = None     # fn(list) -> expected flat list for linear templates
        self.batched = False
        self.buffering = True    # does a buffering node sit between entry and the consumers?
        self.direct = []         # consumer names reachable without crossing a buffering node
        self.bound = None        # (kind, n) documented bound to check
        self.funcs = []          # manual func consumer names (map_async)
        self.items_fn = None     # optional: (producer, i) -> element


def build(world, shard):
    from streamz import Stream
    name = shard["template"]
    native = shard.get("native", False)
    n = shard.get("n", 1)
    iv = shard.get("interval", 2)
    t = T()
    src = Stream(asynchronous=True)
    t.sources = [src]
    ident = lambda L: list(L)

    def sink(node, cname="k", manual=True):
        if manual:
            t.sinks[cname] = world.manual_sink(node, cname, native=native)
        else:
            t.sinks[cname] = world.instant_sink(node, cname)

    if name == "direct":
        sink(src)
        t.skeleton, t.buffering, t.direct = ident, False, ["k"]
    elif name == "map-direct":
        sink(src.map(inc1000))
        t.skeleton, t.buffering, t.direct = (lambda L: [x + 1000 for x in L]), False, ["k"]
    elif name == "two-sinks":
        sink(src, "k")
        sink(src.map(inc1000), "k2")
        t.skeleton, t.buffering, t.direct = ident, False, ["k", "k2"]
    elif name == "slice-direct":
        sink(src.slice(0, None, 1))
        t.skeleton, t.buffering, t.direct = ident, False, ["k"]
    elif name == "flatten-direct":
        sink(src.flatten())
        t.skeleton, t.buffering, t.direct = (lambda L: [y for x in L for y in x]), False, ["k"]
        t.items_fn = lambda p, i: (p * 100 + i * 10, p * 100 + i * 10 + 1)
    elif name == "buffer":
        node = src.buffer(n)
        sink(node)
        t.nodes["buffer"] = node
        t.skeleton, t.bound = ident, ("buffer", n)
    elif name == "buffer+direct":
        sink(src, "k2")
        node = src.buffer(n)
        sink(node)
        t.nodes["buffer"] = node
        t.skeleton, t.bound, t.direct = ident, ("buffer", n), ["k2"]
    elif name == "map+buffer+map":
        node = src.map(inc1000).buffer(n)
        sink(node.map(inc1000))
        t.nodes["buffer"] = node
        t.skeleton, t.bound = (lambda L: [x + 2000 for x in L]), ("buffer", n)
    elif name == "delay":
        node = src.delay(iv)
        sink(node)
        t.nodes["delay"] = node
        t.skeleton = ident
    elif name == "rate_limit":
        node = src.rate_limit(iv)
        sink(node)
        t.nodes["rate_limit"] = node
        t.skeleton, t.buffering, t.direct = ident, False, ["k"]
    elif name == "map_async":
        f = world.manual_func("f", fn=inc1000)
        node = src.map_async(f, parallelism=n)
        sink(node, manual=shard.get("slow_sink", False))
        t.nodes["map_async"] = node
        t.funcs = ["f"]
        t.skeleton, t.bound = (lambda L: [x + 1000 for x in L]), ("map_async", n)
    elif name == "timed_window":
        node = src.timed_window(iv)
        sink(node)
        t.nodes["timed_window"] = node
        t.skeleton, t.batched = ident, True
    elif name == "partition":
        node = src.partition(n)
        sink(node)
        t.nodes["partition"] = node
        t.skeleton, t.batched = (lambda L: list(L[:len(L) - len(L) % n])), True
    elif name == "partition-timeout":
        node = src.partition(n, timeout=iv)
        sink(node)
        t.nodes["partition"] = node
        t.skeleton, t.batched = ident, True
    elif name == "buffer+delay":
        node = src.buffer(n)
        sink(node.delay(iv))
        t.nodes["buffer"] = node
        t.skeleton = ident
    elif name == "delay+buffer":
        node = src.delay(iv).buffer(n)
        sink(node)
        t.skeleton = ident
    elif name == "rate_limit+buffer":
        node = src.rate_limit(iv).buffer(n)
        sink(node)
        t.skeleton = ident
    elif name == "buffer+rate_limit":
        node = src.buffer(n)
        sink(node.rate_limit(iv))
        t.nodes["buffer"] = node
        t.skeleton = ident
    elif name == "map_async+partition-timeout":
        f = world.manual_func("f", fn=inc1000)
        node = src.map_async(f, parallelism=n).partition(2, timeout=iv)
        sink(node)
        t.funcs = ["f"]
        t.skeleton, t.batched = (lambda L: [x + 1000 for x in L]), True
    elif name == "timed_window+buffer":
        node = src.timed_window(iv).buffer(n)
        sink(node)
        t.skeleton, t.batched = ident, True
    elif name == "buffer+timed_window":
        node = src.buffer(n).timed_window(iv)
        sink(node)
        t.skeleton, t.batched = ident, True
    elif name == "zip-buffer-delay":
        src2 = Stream(asynchronous=True)
        t.sources.append(src2)
        node = src.buffer(n).zip(src2.delay(iv))
        sink(node)
        t.kind = "zip2"
    elif name == "zip":
        src2 = Stream(asynchronous=True)
        t.sources.append(src2)
        node = src.zip(src2, maxsize=n)
        sink(node)
        t.nodes["zip"] = node
        t.kind = "zip2"
        t.bound = ("zip", n)
    elif name == "zip3":
        src2 = Stream(asynchronous=True)
        src3 = Stream(asynchronous=True)
        t.sources += [src2, src3]
        node = src.zip(src2, src3, maxsize=n)
        sink(node)
        t.nodes["zip"] = node
        t.kind = "zip2"
        t.bound = ("zip", n)
    elif name in ("zip_latest-direct", "combine_latest-direct"):
        src2 = Stream(asynchronous=True)
        t.sources.append(src2)
        node = src.zip_latest(src2) if name.startswith("zip_latest") else src.combine_latest(src2)
        sink(node)
        t.kind = "join-direct"
        t.buffering, t.direct = False, []
    elif name == "union-delay":
        src2 = Stream(asynchronous=True)
        t.sources.append(src2)
        node = src.delay(iv).union(src2)
        sink(node)
        t.kind = "union2"
    elif name == "union":
        src2 = Stream(asynchronous=True)
        t.sources.append(src2)
        node = src.union(src2)
        sink(node)
        t.kind = "union2"
        t.buffering, t.direct = False, ["k"]
    else:
        raise ValueError(name)
    return t


ALLOWED = (0, 1, 2, 3, 4, 9)


def allowed_for(shard):
    a = [0, 2, 9]
    if shard["template"] in ("zip-buffer-delay", "zip", "union-delay", "union", "zip3", "zip_latest-direct",
                             "combine_latest-direct"):
        a.append(1)
    if shard["template"] == "zip3":
        a.append(6)
    if shard.get("out_of_order", False):
        a.append(3)
    if shard.get("timers", False):
        a.append(4)
    if shard.get("fail", False):
        a.append(5)
    if shard.get("fine", False):
        a += [7, 8]
    return tuple(sorted(a))


def pre(shard, *choices):
    # allowed-ness is decided lazily, step by step, inside run_schedule (a value outside the
    # alphabet prunes the path), so that an early disabled choice cuts the whole subtree
    return True


class Run:
    pass


def run(shard, choices, with_ref=False, nmd=1, after_step=None, record_md=False):
    """Execute template + schedule.  Returns Run (or None when the schedule is pruned)."""
    r = Run()
    with untraced():
        r.record_md = record_md
        return _run(shard, list(choices), with_ref, nmd, after_step, r)


def _run(shard, cs, with_ref, nmd, after_step, r):
    world = World()
    r.world = world
    t = build(world, shard)
    r.t = t
    r.callbacks = []
    r.refs = {}
    r.events = []
    r.md_seen = []
    if getattr(r, "record_md", False):
        # a recording node next to the consumer: sees exactly the metadata the consumer's node is offered
        up = t.sinks["k"].upstreams[0]
        r.rec = Rec(up, r.md_seen, "k")
    nitems = shard.get("items", 3)
    awaiting = shard.get("awaiting", True)

    def mk_md(x):
        if not with_ref:
            return None
        k = nmd if nmd != "vary" else (x % 3)        # 0, 1 or 2 dictionaries, varying with the token
        return make_metadata(x, k, True, world.io, r.callbacks, refs=r.refs, events=r.events,
                             clock=world.loop.time) or None
    mk = t.items_fn or (lambda p, i: p * 100 + i)
    r.producers = [Producer(world, s, [mk(p, i) for i in range(nitems)], awaiting=awaiting,
                            metadata=mk_md if with_ref else None)
                   for p, s in enumerate(t.sources)]
    r.pruned = False
    r.steplog = []
    try:
        world.loop.run_ready()

        def step_hook(n):
            if after_step is not None:
                after_step(r, n)
        r.failed = []

        def extra(c):
            if c == 6:
                if len(r.producers) < 3 or not r.producers[2].enabled():
                    return False
                r.producers[2].step()
                return True
            if c != 5:
                return False
            p = world.pending()
            if not p or r.failed:
                return False           # at most one failure per run
            r.failed.append(p[0].x)
            world.complete(p[0], exc=JobFailed("boom"))
            return True
        try:
            if shard.get("prefix"):
                # a concrete prefix (reaches a deep state), then the symbolic schedule
                run_schedule(world, list(shard["prefix"]), r.producers, extra=extra, after_step=step_hook,
                             allowed=tuple(range(10)), fine=shard.get("fine", False))
            run_schedule(world, cs, r.producers, extra=extra, after_step=step_hook,
                         allowed=allowed_for(shard), fine=shard.get("fine", False))
        except Pruned:
            r.pruned = True
            return r
        r.quiet = drain_run(r, step_hook)
        return r
    finally:
        world.close()


def expected_total(r):
    t = r.t
    if t.kind == "join-direct":
        return len(r.world.delivered.get("k", []))
    if t.kind == "linear":
        return len(t.skeleton(r.producers[0].items[:r.producers[0].i]))
    if t.kind == "zip2":
        return min(p.i for p in r.producers)
    return sum(p.i for p in r.producers)


def delivered_flat(r, cname="k"):
    out = []
    for x in r.world.delivered.get(cname, []):
        if r.t.batched:
            out.extend(list(x))
        else:
            out.append(x)
    return out


def drain_run(r, step_hook=None):
    """Input stops (producers emit nothing further); complete consumers oldest-first and
    fire timers until everything emitted so far has been delivered or nothing moves."""
    world = r.world

    def all_done():
        if world.pending():
            return False
        if len(delivered_flat(r)) < expected_total(r):
            return False
        if r.t.kind != "zip2":   # a zip input without partner legitimately keeps its producer waiting
            for e in world.emits:
                if not e.done:
                    return False
        return True
    ok = drain(world, [], max_steps=60, after_step=step_hook, stop_when=all_done)
    # a few extra timer firings to expose duplicates / spurious emissions
    for _ in range(3):
        if world.loop.next_deadline() is None:
            break
        world.loop.advance()
        for j in world.pending():
            world.complete(j)
        if step_hook is not None:
            step_hook(-2)
    return ok and all_done()
