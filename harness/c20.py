"""C20 - a Dask-backed pipeline is observationally equivalent to the local one.

Real code executed: all of streamz/dask.py (scatter, gather, map, starmap, accumulate
+/- returns_state / with_state, and the mixed-in buffer, partition, sliding_window, union,
zip) + core.  The cluster is a contract model of distributed.Client on the virtual loop
(engine/models/model_dask_client.py); the schedule chooses which submitted task (any
runnable one: oldest or newest), pending scatter or ready gather finishes next.
Oracle: the same template built from the local node types, run in the same harness on
the same inputs: equal sink sequences; reference counters balanced in the same way.
"""
from engine.vloop import World
from engine.symutil import Verdict, untraced, decide
from engine.pipeline import make_metadata
from engine.models.model_dask_client import ModelClient

META = {
    "bounds": {"quick": "segments scatter -> X [-> Y] -> gather over map, starmap, accumulate (plain / start / returns_state / "
                        "with_state), buffer, partition, sliding_window, zip, union; 3 inputs, schedules of <= 9 steps over "
                        "{emit (awaiting producer), run oldest / newest runnable task, finish scatter, finish gather}",
               "thorough": "4 inputs, schedules of <= 10 steps"},
    "outside": ["real cluster failures", "serialization", "several workers' data locality",
                "producers that do not await emit (order is then not promised by scatter/gather)"],
    "stubs": ["distributed client -> engine/models/model_dask_client.py", "event loop: engine/vloop.py"],
    "assumptions": ["client contract as documented by distributed: submit is synchronous, a task runs after its "
                    "dependencies, gather resolves nested futures"],
}


def inc(x):
    return x + 1


def dbl(x):
    return 2 * x


def add(a, b):
    return a + b


def add_rs(acc, x):
    return (acc + x, acc * 10 + x)


def build(kind, src, srcs2, dask):
    """Same template either on the Dask node types (scatter ... gather) or locally."""
    s = src.scatter() if dask else src
    if kind == "map":
        out = s.map(inc)
    elif kind == "map+map":
        out = s.map(inc).map(dbl)
    elif kind == "acc":
        out = s.accumulate(add)
    elif kind == "acc-start":
        out = s.accumulate(add, start=100)
    elif kind == "acc-rs":
        out = s.accumulate(add_rs, start=0, returns_state=True)
    elif kind == "acc-ws":
        out = s.accumulate(add, with_state=True)
    elif kind == "map+acc":
        out = s.map(inc).accumulate(add)
    elif kind == "acc+partition":
        out = s.accumulate(add).partition(2)
    elif kind == "acc+window":
        out = s.accumulate(add).sliding_window(2, return_partial=False)
    elif kind == "acc-ws+partition":
        out = s.accumulate(add, with_state=True).partition(2)
    elif kind == "map+buffer":
        out = s.map(inc).buffer(2)
    elif kind == "partition":
        out = s.partition(2)
    elif kind == "partition+starmap":
        out = s.partition(2).starmap(add)
    elif kind == "window":
        out = s.sliding_window(2)
    elif kind == "map+window":
        out = s.map(inc).sliding_window(2, return_partial=False)
    elif kind == "zip":
        s2 = srcs2.scatter() if dask else srcs2
        out = s.map(inc).zip(s2)
    elif kind == "union":
        s2 = srcs2.scatter() if dask else srcs2
        out = s.map(inc).union(s2.map(dbl))
    else:
        raise ValueError(kind)
    return out.gather() if dask else out


ALLOWED = (0, 1, 2, 3, 5, 6, 9)


def pre(shard, *c):
    return True


def body(shard, *choices):
    with untraced():
        return _body(shard, *choices)


def _body(shard, *choices):
    import streamz.dask as SD
    from streamz import Stream
    kind = shard["kind"]
    n = shard.get("items", 3)
    two = kind in ("zip", "union")
    vd = Verdict()
    world = World()
    client = ModelClient(world)
    saved = SD.default_client
    SD.default_client = lambda: client
    try:
        # ---- dask pipeline
        src = Stream(asynchronous=True)
        src2 = Stream(asynchronous=True) if two else None
        out = build(kind, src, src2, True)
        got = []
        out.sink(got.append)

        class CbLog(list):
            """callback log that also remembers how many results had reached the sink"""
            def __init__(self, sinklist):
                list.__init__(self)
                self.sinklist = sinklist
                self.at = {}

            def append(self, key):
                list.append(self, key)
                if kind == "union":
                    # independent producers: count only the deliveries that stem from the same source
                    mine = [v for v in self.sinklist if (v >= 30) == (key[0][0] == 1)]
                    self.at.setdefault(key, len(mine))
                else:
                    self.at.setdefault(key, len(self.sinklist))
        cbs, refs = CbLog(got), {}
        items = [[10 + i for i in range(n)], [20 + i for i in range(n)]]
        pos = [0, 0]
        last = [None, None]
        world.loop.run_ready()

        def emit(p):
            s = src if p == 0 else src2
            x = items[p][pos[p]]
            pos[p] += 1
            md = make_metadata((p, x), 1, True, world.io, cbs, refs=refs)
            last[p] = world.emit(s, x, metadata=md)

        def enabled_emit(p):
            if p == 1 and not two:
                return False
            if pos[p] >= n:
                return False
            return last[p] is None or last[p].done
        order = []          # the order in which the two producers emitted (for the local run)

        def step(c):
            if c in (0, 1):
                if not enabled_emit(c):
                    return False
                order.append(c)
                emit(c)
            elif c in (2, 3):
                r = client.runnable()
                if not r or (c == 3 and len(r) < 2):
                    return False
                client.run_task(r[0] if c == 2 else r[-1])
                world.loop.run_ready()
            elif c == 5:
                if not client.scatters:
                    return False
                client.finish_scatter(0)
            elif c == 6:
                g = client.ready_gathers()
                if not g:
                    return False
                client.finish_gather(g[0])
            return True
        pruned = False
        for c in choices:
            c = decide(c, ALLOWED)
            if c is None or c == 9:
                break
            if not step(c):
                pruned = True
                break
        if pruned:
            return ""
        # ---- drain: emit the rest (awaiting), finish everything oldest-first
        for _ in range(200):
            if step(5) or step(6) or step(2):
                continue
            if step(0) or step(1):
                continue
            if world.loop.next_deadline() is not None and (client.tasks or client.scatters or client.gathers):
                world.loop.advance()
                continue
            break
        world.loop.run_ready()
        # ---- local pipeline on the same inputs, in the same producer order
        lsrc = Stream(asynchronous=True)
        lsrc2 = Stream(asynchronous=True) if two else None
        lout = build(kind, lsrc, lsrc2, False)
        exp = []
        lout.sink(exp.append)
        lcbs, lrefs = CbLog(exp), {}
        lpos = [0, 0]
        world.loop.run_ready()
        for p in order:
            x = items[p][lpos[p]]
            lpos[p] += 1
            md = make_metadata((p, x), 1, True, world.io, lcbs, refs=lrefs)
            world.emit(lsrc if p == 0 else lsrc2, x, metadata=md)
            world.loop.run_ready()
        for _ in range(20):
            if not world.loop.advance():
                break
        if kind == "union":
            # two independent, concurrent producers: only the order *within* each source is
            # defined (the local pipeline happens to serialise them in emit order)
            def per_source(L):
                return ([x for x in L if x < 30], [x for x in L if x >= 30])
            same = per_source(got) == per_source(exp)
        else:
            same = got == exp
        if not same:
            if sorted(map(repr, got)) == sorted(map(repr, exp)):
                vd.add("order-differs@%s" % kind)
            elif len(got) < len(exp):
                vd.add("results-missing@%s" % kind)
            else:
                vd.add("results-differ@%s" % kind)
        for key, r in refs.items():
            lr = lrefs.get(key)
            if lr is None:
                continue
            if r.count != lr.count:
                vd.add("refcount-differs@%s" % kind)
            if (key in cbs) != (key in lcbs):
                vd.add("completion-callback-differs@%s" % kind)
            if r.went_negative():
                vd.add("negative-count@%s" % kind)
            if r.rose_after_zero() and not lr.rose_after_zero():
                vd.add("count-rises-after-zero@%s" % kind)
            if cbs.count(key) != lcbs.count(key):
                vd.add("completion-callback-count-differs@%s" % kind)
            if key in cbs.at and key in lcbs.at and cbs.at[key] < lcbs.at[key]:
                # the Dask pipeline signalled completion after fewer results had reached the sink
                vd.add("completion-callback-earlier-than-local@%s" % kind)
        for e in world.emits:
            if e.exc is not None:
                vd.add("producer-saw-exception@%s" % kind)
        if world.loop.errors:
            vd.add("loop-error@%s" % kind)
        return vd.result()
    finally:
        SD.default_client = saved
        world.close()


KINDS = ["map", "map+map", "acc", "acc-start", "acc-rs", "acc-ws", "map+acc", "acc+partition", "acc+window",
         "acc-ws+partition", "map+buffer", "partition",
         "partition+starmap", "window", "map+window", "zip", "union"]


def obligations(tier):
    q = tier == "quick"
    steps = 9 if q else 10
    obls = []
    for kind in KINDS:
        obls.append({"name": "%s/steps=%d" % (kind, steps), "body": "body", "pre": "pre",
                     "shard": {"kind": kind, "items": 3 if q else 4}, "types": ["int"] * steps,
                     "budget": 600 if q else 3000})
    return obls
