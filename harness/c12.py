"""C12 - aggregation state can be checkpointed and resumed without changing results.

For every aggregation that accepts `start=`: run the uninterrupted pipeline over all
batches, capture the state after *every* batch (the accumulate node's state - what
with_state=True emits), then seed a fresh pipeline with `start=<that state, as is, no copy>`
and feed it the remaining batches: its results must equal the uninterrupted suffix.  The
captured state object stays shared with the first pipeline, which keeps running - aliasing
between the two is part of what is checked.
Real code: accumulate_partitions / Stream.accumulate(start, returns_state), accumulator,
groupby_accumulator, window_accumulator, windowed_groupby_accumulator, rolling_accumulator,
every on_new / on_old, on model frames.  Symbolic: values, keys, timestamps.
"""
from engine import dfrun as D
from engine.symutil import Verdict
from harness import dfcommon as DC
from harness.c06 import length_patterns, KEYDOM

META = {
    "bounds": {"quick": "<= 3 batches of <= 2 rows (total <= 4), every cut point; sum/count/mean, groupby sum/count/mean (column "
                        "and streaming grouper), window(n in {1,2}) and window(value=2) with sum/count/mean/var, windowed "
                        "groupby, rolling(2).sum/mean, rolling(2 ticks).sum, expanding sum/mean, ewm(com=1).mean",
               "thorough": "<= 3 batches of <= 2 rows (total <= 4) plus three patterns with a 3-row batch, window n up to 3"},
    "outside": ["states that are serialised and restored in another process", "IEEE rounding"],
    "stubs": DC.STUBS,
    "assumptions": [],
}


def _needs_keys(spec):
    return bool(spec.get("groupby"))


def _by_time(spec):
    return spec.get("window", ("",))[0] == "value" or spec.get("rolling", ("",))[0] == "value"


def pre(shard, *v):
    n = sum(shard["lens"])
    spec = shard["spec"]
    i = n
    if _needs_keys(spec):
        for k in v[i:i + n]:
            if not (0 <= k <= KEYDOM):
                return False
        i += n
    if _by_time(spec):
        for g in v[i:i + n]:
            if not (0 <= g <= 3):
                return False
    return True


def verdict_for(kind, shard, v):
    spec = shard["spec"]
    lens = shard["lens"]
    n = sum(lens)
    xs = list(v[:n])
    i = n
    ks = None
    if _needs_keys(spec):
        ks = list(v[i:i + n])
        i += n
    ts = None
    if _by_time(spec):
        ts, t = [], 10
        for g in v[i:i + n]:
            t = t + g
            ts.append(t)
    batches = DC.make_batches(lens, xs, ks, ts)
    vd = Verdict()
    name = shard["name"]
    be = D.Backend(kind)
    be.time = kind == "pandas" and _by_time(spec)
    saved = D.install_model() if kind == "model" else None
    as_map = bool(spec.get("groupby")) or spec["op"] == "value_counts"
    # (streamz computes the example of a resumed pipeline by running the accumulator on
    # start + example: the example's timestamp must not lie before the state's rows)
    ex = {"x": [0], "k": [0], "idx": [10 ** 6 if _by_time(spec) else 0]}
    try:
        emit, L, make = D.build(be, spec, ex)
        node = emit.out.stream
        states, results = [], []
        for b in batches:
            n0 = len(L)
            try:
                emit(b)
            except (ZeroDivisionError, IndexError):
                return ""          # raising on an empty prefix: C07's business, nothing to resume
            results.append([D.norm(x) for x in L[n0:]])
            states.append(node.state)
        for c in range(1, len(batches)):
            if sum(lens[:c]) == 0 and not shard.get("resume_from_empty", True):
                continue
            emit2, L2, _ = D.build(be, spec, ex, start=states[c - 1])
            for j in range(c, len(batches)):
                n0 = len(L2)
                try:
                    emit2(batches[j])
                except Exception:
                    vd.add("resumed-pipeline-raises@%s" % name)
                    break
                got = [D.norm(x) for x in L2[n0:]]
                exp = results[j]
                if len(got) != len(exp):
                    vd.add("resumed-results-differ@%s" % name)
                    break
                ok = True
                for a, b_ in zip(got, exp):
                    if not D.same(a, b_, as_map=as_map):
                        ok = False
                if not ok:
                    vd.add("resumed-results-differ@%s" % name)
                    break
        return vd.result()
    finally:
        if saved:
            D.uninstall_model(saved)


def body(shard, *v):
    return DC.with_pandas_replay(lambda: verdict_for("model", shard, v),
                                 lambda: verdict_for("pandas", shard, v), DC.concrete(v))


def specs(tier):
    q = tier == "quick"
    out = []
    for o in ("sum", "count", "mean"):
        out.append(("reduce-" + o, {"op": o}))
        for g in ("column", "stream"):
            out.append(("groupby-%s-%s" % (g, o), {"op": o, "kind": "frame", "groupby": g}))
    # whole-frame reductions: the state is a mutable Series per statistic
    for o in ("sum", "mean"):
        out.append(("frame-" + o, {"op": o, "kind": "frame2"}))
    out.append(("frame-window-n2-mean", {"op": "mean", "kind": "frame2", "window": ("n", 2)}))
    out.append(("frame-expanding-mean", {"op": "mean", "kind": "frame2", "window": ("expanding",)}))
    for N in ((1, 2) if q else (1, 2, 3)):
        for o in ("sum", "count", "mean", "var"):
            out.append(("window-n%d-%s" % (N, o), {"op": o, "window": ("n", N)}))
    for o in ("sum", "count", "mean"):
        out.append(("window-value2-%s" % o, {"op": o, "window": ("value", 2)}))
    for g in ("column", "stream"):
        for o in ("sum", "mean"):
            out.append(("window-n2-groupby-%s-%s" % (g, o),
                        {"op": o, "kind": "frame", "groupby": g, "window": ("n", 2)}))
    out.append(("window-value2-groupby-column-sum",
                {"op": "sum", "kind": "frame", "groupby": "column", "window": ("value", 2)}))
    for o in ("sum", "mean"):
        out.append(("rolling-n2-%s" % o, {"op": "rolling_" + o, "rolling": ("n", 2)}))
    out.append(("rolling-value2-sum", {"op": "rolling_sum", "rolling": ("value", 2)}))
    for o in ("sum", "mean"):
        out.append(("expanding-%s" % o, {"op": o, "window": ("expanding",)}))
    out.append(("ewm1-mean", {"op": "mean", "window": ("ewm", 1)}))
    return out


def obligations(tier):
    q = tier == "quick"
    B = 400 if q else 2000
    pats = [p for p in (length_patterns(3, 2, 4) if q else length_patterns(3, 2, 4) + [(1, 1, 3), (3, 1, 1), (2, 3, 0)])]
    obls = []
    for name, spec in specs(tier):
        for lens in pats:
            n = sum(lens)
            if q and n > 3 and (_needs_keys(spec) or _by_time(spec)):
                continue
            nsym = n + (n if _needs_keys(spec) else 0) + (n if _by_time(spec) else 0)
            obls.append({"name": "%s/lens=%s" % (name, "-".join(map(str, lens))), "body": "body", "pre": "pre",
                         "shard": {"spec": spec, "lens": list(lens), "name": name},
                         "types": ["int"] * nsym, "budget": B})
    return obls


def pre_check(tier):
    from engine import model_validation
    return model_validation.run(200 if tier == "quick" else 1000)
