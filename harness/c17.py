"""C17 - file-based sources deliver every record exactly once however the data arrives.

from_textfile: symbolic chunk *contents* and symbolic *delimiter* (arbitrary characters; lengths sharded), symbolic placement of empty polls between chunks, from_end
on/off.  Oracle: emitted == text.split(d)[:-1] each + d, tail == last part held back.
filenames: glob stubbed; symbolic set of present files at each poll.
Real code executed: from_textfile.__init__/_run, filenames._run, Source.start/run,
Stream._emit - on the virtual loop.
"""
from engine.vloop import World
from engine.symutil import Verdict, untraced, pick, pick_bool

META = {
    "bounds": {"quick": "from_textfile: <= 3 chunks with total <= 4 arbitrary characters, delimiter of 1 or 2 arbitrary characters "
                        "(all symbolic), an empty poll before any chunk (symbolic), from_end on/off; filenames: universe "
                        "of 3 names, any subset present at each of 3 polls",
               "thorough": "total <= 5 characters, 4 polls for filenames"},
    "outside": ["encodings / newline translation of real files", "directories", "files that shrink"],
    "stubs": ["file object: in-memory fake (read/seek)", "streamz.sources.glob -> symbolic listing",
              "event loop + clock: engine/vloop.py"],
    "assumptions": ["read() returns what was appended since the last read"],
}

ALPHA = "abc"


class FakeFile:
    def __init__(self, initial):
        self.data = [initial] if initial else []
        self.pos = 0

    def append(self, chunk):
        self.data.append(chunk)

    def read(self):
        out = "".join(self.data[self.pos:])
        self.pos = len(self.data)
        return out

    def seek(self, off, whence=0):
        if whence == 2:
            self.pos = len(self.data)


def _ok_str(s, n):
    # only the length is fixed (sharded); the characters are arbitrary - which is more general
    # than a small alphabet and lets the solver choose exactly the equality pattern it needs
    return len(s) == n


def pre_text(shard, *v):
    lens = shard["lens"]
    nch = len(lens)
    for s, n in zip(v[:nch], lens):
        if not _ok_str(s, n):
            return False
    if not _ok_str(v[nch], shard["dlen"]):
        return False
    return True


def body_text(shard, *v):
    lens = shard["lens"]
    nch = len(lens)
    chunks = list(v[:nch])
    delim = v[nch]
    gaps = [pick_bool(b) for b in v[nch + 1:nch + 1 + nch]]
    from_end = shard.get("from_end", False)
    vd = Verdict()
    with untraced():
        from streamz import Stream
        world = World()
        loop = world.loop
    try:
        with untraced():
            f = FakeFile(None)
        if lens[0]:
            f.append(chunks[0])
        src = Stream.from_textfile(f, poll_interval=1, delimiter=delim, from_end=from_end,
                                   asynchronous=True, loop=world.io)
        out = []
        with untraced():
            src.sink(out.append)

        def poll():
            """one polling cycle of the real _run coroutine, driven by hand (the surrounding
            Source.run loop is C18's subject)"""
            coro = src._run()
            try:
                while True:
                    fut = coro.send(None)
                    with untraced():
                        for _ in range(5):
                            if fut.done():
                                break
                            loop.advance()
            except StopIteration:
                pass
        poll()
        for i in range(1, nch):
            if gaps[i]:
                poll()                  # a poll that finds nothing new
            f.append(chunks[i])
            poll()
        poll()
        text = "".join(chunks[1:] if from_end else chunks)
        parts = text.split(delim)
        expect = [p + delim for p in parts[:-1]]
        if len(out) != len(expect):
            vd.add("record-lost-or-duplicated@from_textfile")
        else:
            for a, b in zip(out, expect):
                if a != b:
                    vd.add("record-modified@from_textfile")
        if src.buffer != parts[-1]:
            vd.add("tail-not-held-back@from_textfile")
        if loop.errors:
            vd.add("loop-error@from_textfile")
        return vd.result()
    finally:
        world.close()


def pre_files(shard, *masks):
    for m in masks:
        if not (0 <= m <= 7):
            return False
    return True


NAMES = ["/d/a.txt", "/d/b.txt", "/d/c.txt"]


def body_files(shard, *masks):
    masks = [pick(m, 0, 7) for m in masks]
    with untraced():
        return _files(shard, masks)


def _files(shard, masks):
    import streamz.sources as S
    from streamz import Stream
    vd = Verdict()
    world = World()
    loop = world.loop
    state = {"poll": 0}
    saved = S.glob

    def fake_glob(path):
        p = state["poll"]
        state["poll"] += 1
        m = masks[p] if p < len(masks) else masks[-1]
        # unsorted on purpose: reverse order
        return [NAMES[i] for i in (2, 1, 0) if m & (1 << i)]
    S.glob = fake_glob
    try:
        src = Stream.filenames("/d/*", poll_interval=1, asynchronous=True, loop=world.io)
        out = []
        polls = []
        src.sink(lambda x: out.append((state["poll"], x)))
        src.start()
        loop.run_ready()
        for _ in range(len(masks) - 1):
            loop.advance()
        src.stop()
        seen = set()
        expect = []
        for p, m in enumerate(masks):
            new = sorted(NAMES[i] for i in range(3) if m & (1 << i) and NAMES[i] not in seen)
            for n in new:
                seen.add(n)
                expect.append((p + 1, n))
        if [x for _, x in out] != [x for _, x in expect]:
            if sorted(x for _, x in out) == sorted(x for _, x in expect):
                vd.add("not-sorted-per-poll@filenames")
            else:
                vd.add("path-lost-or-duplicated@filenames")
        elif out != expect:
            vd.add("emitted-at-wrong-poll@filenames")
        return vd.result()
    finally:
        S.glob = saved
        world.close()


def compositions(total, parts):
    if parts == 1:
        return [(total,)]
    out = []
    for first in range(0, total + 1):
        for rest in compositions(total - first, parts - 1):
            out.append((first,) + rest)
    return out


def obligations(tier):
    q = tier == "quick"
    obls = []
    tot = 4 if q else 5
    seen = set()
    for total in range(1, tot + 1):
        for nch in (1, 2, 3):
            for lens in compositions(total, nch):
                if any(l == 0 for l in lens[1:]):
                    continue            # an empty later chunk is an empty poll (covered by the gap flags)
                if nch > 1 and lens[0] == 0 and False:
                    continue
                for dlen in (1, 2):
                    for from_end in (False, True):
                        if from_end and nch == 1:
                            continue
                        if q and total == tot and nch == 3 and dlen == 2 and from_end:
                            continue
                        key = (lens, dlen, from_end)
                        if key in seen:
                            continue
                        seen.add(key)
                        obls.append({"name": "from_textfile/lens=%s/d=%d/%s" % ("-".join(map(str, lens)), dlen,
                                                                                "from_end" if from_end else "start"),
                                     "body": "body_text", "pre": "pre_text",
                                     "shard": {"lens": list(lens), "dlen": dlen, "from_end": from_end},
                                     "types": ["str"] * (nch + 1) + ["bool"] * nch,
                                     "budget": 600 if q else 3000})
    for npolls in ((3,) if q else (3, 4)):
        obls.append({"name": "filenames/polls=%d" % npolls, "body": "body_files", "pre": "pre_files",
                     "shard": {}, "types": ["int"] * npolls, "budget": 600})
    return obls
