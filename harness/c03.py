"""C03 - back-pressure: emit waits for downstream, in-flight data is bounded, no deadlock.

Same World and schedule alphabet as C02.  Clauses, evaluated after *every* step:
  wait   an emit whose awaitable has completed => every consumer reachable from the entry
         without crossing a buffering node has finished handling that element;
  bound  buffer(n): #accepted - #handed-on <= n ; zip(maxsize=n): per input, accepted but
         unmatched <= n ; map_async(parallelism=n): concurrently running jobs <= n
         (accepted = emits whose awaitable completed; producers obey the awaitable);
  wake   once the drain has completed every consumer, no emit awaitable is still pending
         (except a zip input that has no partner element).
Blocking emit with the loop "in another thread" is run through a cooperative model of
threading.Event (the loop makes progress, under control of the schedule, exactly while
the emitting thread is blocked in Event.wait).
"""
from engine.symutil import Verdict
from harness import asyncpipe as AP

META = {
    "bounds": {
        "quick": "schedules of <= 8 steps, <= 4 elements per producer, n in {1,2,3} for buffer / zip maxsize / "
                 "map_async parallelism, out-of-order completion of jobs; awaiting producers for the bound "
                 "clause, blind producers for wait/wake; blocking emit via cooperative Event model (<= 5 steps)",
        "thorough": "schedules of <= 9 steps, <= 5 elements; blocking emit <= 8 steps",
    },
    "outside": ["pre-emptive interleaving of two user threads", "several producers on one zip input"],
    "stubs": ["event loop + clock: engine/vloop.py",
              "threading.Event / thread identity: cooperative model (engine/coop.py)"],
    "assumptions": ["callbacks made ready in one loop iteration run FIFO (asyncio semantics)"],
}


def images(shard, cname, x):
    t = shard["template"]
    if t == "map-direct":
        return [x + 1000]
    if t == "two-sinks" and cname == "k2":
        return [x + 1000]
    if t == "flatten-direct":
        return list(x)
    return [x]


def invariants(shard, r, vd):
    t = r.t
    w = r.world
    name = shard["template"]
    # ---- wait
    for e in w.emits:
        if e.done and e.exc is None:
            for cname in t.direct:
                for y in images(shard, cname, e.x):
                    if y not in w.finished[cname]:
                        vd.add("emit-completed-before-consumer@%s" % name)
    if not t.buffering:
        for e in w.emits:
            if e.done and e.exc is None:
                for j in e.jobs_started:
                    if not j.fut.done():
                        vd.add("emit-completed-before-consumer@%s" % name)
    # ---- bound (awaiting producers only)
    if t.bound is not None and shard.get("awaiting", True):
        kind, n = t.bound
        if kind == "buffer":
            accepted = sum(1 for e in w.emits if e.done)
            handed = len(w.delivered["k"])
            if accepted - handed > n:
                vd.add("bound-exceeded@buffer")
        elif kind == "zip":
            handed = len(w.delivered["k"])
            for p in r.producers:
                accepted = sum(1 for e in w.emits if e.done and e.src is p.source)
                if accepted - handed > n:
                    vd.add("bound-exceeded@zip")
        elif kind == "map_async":
            running = len(w.pending("f"))
            if running > n:
                vd.add("parallelism-exceeded-by-%d@map_async" % (running - n))


def body(shard, *choices):
    vd = Verdict()

    def after_step(r, n):
        invariants(shard, r, vd)
    r = AP.run(shard, choices, after_step=after_step)
    if r.pruned:
        return vd.result()
    name = shard["template"]
    invariants(shard, r, vd)
    w = r.world
    # ---- wake: every consumer has been completed by the drain
    if not w.pending():
        for e in w.emits:
            if not e.done:
                if r.t.kind == "zip2":
                    node = r.t.nodes.get("zip")
                    if node is not None:
                        buf = node.buffers.get(e.src)
                        if buf is not None and len(buf) <= node.maxsize:
                            vd.add("emit-blocked-although-within-bound@%s" % name)
                    continue
                vd.add("emit-never-completed@%s" % name)
    else:
        vd.add("drain-did-not-finish@%s" % name)
    if w.loop.errors:
        vd.add("loop-error@%s" % name)
    return vd.result()


def pre(shard, *choices):
    return True


def templates(tier):
    q = tier == "quick"
    out = []
    items = 4 if q else 5
    for native in (False, True):
        for awaiting in (True, False):
            base = {"native": native, "awaiting": awaiting, "items": items}
            for tname in ("direct", "map-direct", "two-sinks", "slice-direct"):
                out.append(dict(base, template=tname))
            out.append(dict(base, template="flatten-direct", out_of_order=True, items=2))
            out.append(dict(base, template="rate_limit", timers=True, interval=2))
            out.append(dict(base, template="union", items=2))
            out.append(dict(base, template="zip_latest-direct", items=3, out_of_order=True))
            out.append(dict(base, template="combine_latest-direct", items=2))
            for n in (1, 2, 3):
                out.append(dict(base, template="buffer", n=n))
                out.append(dict(base, template="map_async", n=n, out_of_order=True))
                if awaiting:
                    out.append(dict(base, template="zip", n=n, items=3 if q else 4))
                if n == 1:
                    out.append(dict(base, template="zip3", n=1, items=3))
            out.append(dict(base, template="buffer+direct", n=1))
            out.append(dict(base, template="map+buffer+map", n=2))
            out.append(dict(base, template="map_async", n=2, out_of_order=True, slow_sink=True))
    return out


def obligations(tier):
    q = tier == "quick"
    steps = 8 if q else 9
    obls = []
    for sh in templates(tier):
        nm = "%s/n=%s/%s/%s/steps=%d" % (sh["template"], sh.get("n", "-"),
                                         "native" if sh["native"] else "future",
                                         "await" if sh["awaiting"] else "blind", steps)
        if sh.get("slow_sink"):
            nm += "/slow-sink"
        st = steps - 1 if (sh["template"] == "zip3" and q) else steps
        obls.append({"name": nm.replace("steps=%d" % steps, "steps=%d" % st), "body": "body", "pre": "pre",
                     "shard": sh, "types": ["int"] * st, "budget": 400 if q else 2400})
    try:
        from harness import c03_block
        obls.extend(c03_block.obligations(tier))
    except ImportError:
        pass
    return obls
