"""C15 - delivery follows the current topology under connect/disconnect/destroy/gc.

Symbolic: the history of graph edits interleaved with emissions.  Node pool: three plain
entry streams s0,s1,s2, one combining node J (zip / combine_latest / union / map) built
over (s0,s1), a recording sink on J, an unreferenced sink and an unreferenced map branch
on s2.  Operation codes:  0-2 emit at s_i ; 3-5 connect s_i -> J ; 6-8 disconnect
s_i -> J ; 10 destroy J ; 11 drop the program's reference to the map branch + gc ;
12 destroy the extra sink ; 9 end.
Reference: edges as an ordered list; J behaves like a node built over its current inputs
that has received what those inputs delivered to it so far.
"""
import gc

from engine.symutil import Verdict, untraced, decide

META = {
    "bounds": {"quick": "histories of <= 5 operations (first one sharded) over the 10 edit/emit operations, gc/sink-destroy histories of <= 7; J in {zip, combine_latest, combine_latest(emit_on=s0), union, map}",
               "thorough": "histories of <= 6 operations (gc: 7)"},
    "outside": ["parallel edges (excluded by the statement)", "edits from inside a running emit"],
    "stubs": [],
    "assumptions": ["CPython reference counting + an explicit gc.collect() decide when an unreferenced branch dies"],
}

ALLOWED = (0, 1, 2, 3, 4, 5, 6, 7, 8, 9, 10, 11, 12)
J_OPS = (0, 1, 2, 3, 4, 5, 6, 7, 8, 9, 10)      # histories that edit / feed the combining node
GC_OPS = (2, 5, 8, 9, 11, 12)                   # histories around garbage collection and sink destruction


def pre(shard, *c):
    return True


def body(shard, *choices):
    with untraced():
        return _body(shard, *choices)


class RefJ:
    def __init__(self, kind, inputs):
        self.kind = kind
        self.inputs = list(inputs)          # ordered current inputs
        self.state = {i: self._fresh() for i in inputs}
        self.out = []

    def _fresh(self):
        return [] if self.kind == "zip" else None

    def connect(self, i):
        self.inputs.append(i)
        self.state[i] = self._fresh()

    def disconnect(self, i):
        self.inputs.remove(i)
        del self.state[i]
        self._due()

    def _due(self):
        if self.kind == "zip":
            while self.inputs and all(self.state[i] for i in self.inputs):
                self.out.append(tuple(self.state[i].pop(0) for i in self.inputs))

    def deliver(self, i, x):
        k = self.kind
        if k == "union":
            self.out.append(x)
        elif k == "map":
            self.out.append(x + 1000)
        elif k == "zip":
            self.state[i].append(x)
            self._due()
        else:
            self.state[i] = (x,)
            if all(self.state[j] is not None for j in self.inputs):
                if k == "combine_latest" or i == 0:
                    self.out.append(tuple(self.state[j][0] for j in self.inputs))


def _body(shard, *choices):
    from streamz import Stream
    kind = shard["kind"]
    vd = Verdict()
    allowed = GC_OPS if shard.get("gc") else J_OPS
    try:
        s = [Stream(), Stream(), Stream()]
        if kind == "zip":
            J = s[0].zip(s[1])
        elif kind == "combine_latest":
            J = s[0].combine_latest(s[1])
        elif kind == "combine_latest_on0":
            J = s[0].combine_latest(s[1], emit_on=s[0])
        elif kind == "union":
            J = s[0].union(s[1])
        else:
            J = s[0].map(lambda x: x + 1000)
        out = J.sink_to_list()
        ref = RefJ(kind, [0, 1] if kind != "map" else [0])
        # extra branches on s2
        sink_log = []
        s[2].sink(sink_log.append)                       # unreferenced sink: stays active
        extra_sink = [s[2].downstreams.data.__iter__().__next__()()]
        map_log = []
        holder = {"branch": s[2].map(map_log.append)}     # referenced non-sink branch
        st = {"n": 0, "sink_alive": True, "branch_alive": True, "sink_expect": [], "map_expect": [],
              "destroyed": False}

        def links_ok():
            for i in range(3):
                down = J in list(s[i].downstreams)
                up = any(u is s[i] for u in J.upstreams)
                if down != up:
                    return False
                if down != (i in ref.inputs):
                    return False
            return True

        def snapshot_links():
            return ([list(x.downstreams) for x in s], list(J.upstreams))

        def extra(c):
            st["n"] += 1
            tok = st["n"]
            if c in (0, 1, 2):
                i = c
                try:
                    s[i].emit(tok)
                except Exception:
                    vd.add("emit-raised@%s" % kind)
                    return True
                if i in ref.inputs:
                    ref.deliver(i, tok)
                    if out != ref.out:
                        if len(out) < len(ref.out):
                            vd.add("missing-output@%s" % kind)
                        else:
                            vd.add("wrong-output@%s" % kind)
                else:
                    pass
                if i == 2:
                    if st["sink_alive"]:
                        st["sink_expect"].append(tok)
                    if st["branch_alive"]:
                        st["map_expect"].append(tok)
                    if sink_log != st["sink_expect"]:
                        vd.add("sink-delivery-wrong")
                    if map_log != st["map_expect"]:
                        vd.add("unreferenced-branch-still-receives" if len(map_log) > len(st["map_expect"])
                               else "referenced-branch-lost")
                return True
            if c in (3, 4, 5):
                i = c - 3
                if i in ref.inputs or st["destroyed"] and False:
                    return False          # would create a parallel edge
                before = snapshot_links()
                try:
                    s[i].connect(J)
                except Exception:
                    vd.add("connect-raised@%s" % kind)
                    if snapshot_links() != before:
                        vd.add("failed-edit-changed-links@%s" % kind)
                    return True
                ref.connect(i)
            elif c in (6, 7, 8):
                i = c - 6
                if i not in ref.inputs:
                    return False
                before = snapshot_links()
                legit = kind == "combine_latest_on0" and i == 0   # documented refusal (RuntimeError)
                try:
                    s[i].disconnect(J)
                except RuntimeError:
                    if not legit:
                        vd.add("disconnect-raised@%s" % kind)
                    if snapshot_links() != before:
                        vd.add("failed-edit-changed-links@%s" % kind)
                    return True
                except Exception:
                    vd.add("disconnect-raised@%s" % kind)
                    if snapshot_links() != before:
                        vd.add("failed-edit-changed-links@%s" % kind)
                    return True
                ref.disconnect(i)
            elif c == 10:
                if not ref.inputs:
                    return False
                before = snapshot_links()
                try:
                    J.destroy()
                except RuntimeError:
                    # documented refusal: the only emit_on input cannot be removed.  destroy() removes the
                    # inputs one after the other, so the inputs before it may be gone - but every
                    # remaining edge must still be consistent at both ends
                    if not (kind == "combine_latest_on0" and 0 in ref.inputs):
                        vd.add("destroy-raised@%s" % kind)
                    for i in list(ref.inputs):
                        if not any(u is s[i] for u in J.upstreams):
                            ref.disconnect(i)
                    if not links_ok():
                        vd.add("failed-edit-changed-links@%s" % kind)
                    return True
                except Exception:
                    vd.add("destroy-raised@%s" % kind)
                    return True
                for i in list(ref.inputs):
                    ref.disconnect(i)
                st["destroyed"] = True
            elif c == 11:
                if not st["branch_alive"]:
                    return False
                holder.clear()
                gc.collect()
                st["branch_alive"] = False
            elif c == 12:
                if not st["sink_alive"]:
                    return False
                extra_sink[0].destroy()
                st["sink_alive"] = False
            else:
                return False
            if not links_ok():
                vd.add("links-inconsistent@%s" % kind)
            return True
        first = shard.get("first")
        if first is not None:
            if not extra(first):
                return vd.result()
        for c in choices:
            c = decide(c, allowed)
            if c is None or c == 9:
                break
            if not extra(c):
                break      # disabled operation: the history ends here (covered as a shorter one)
        return vd.result()
    finally:
        import streamz.sinks
        streamz.sinks._global_sinks.clear()


def obligations(tier):
    q = tier == "quick"
    steps = 4 if q else 5          # plus the sharded first operation
    obls = []
    for kind in ("zip", "combine_latest", "combine_latest_on0", "union", "map"):
        for first in J_OPS:
            if first == 9:
                continue
            obls.append({"name": "%s/first=%d/steps=1+%d" % (kind, first, steps), "body": "body", "pre": "pre",
                         "shard": {"kind": kind, "first": first}, "types": ["int"] * steps,
                         "budget": 600 if q else 3000})
    for kind in ("union", "zip"):
        obls.append({"name": "gc/%s/steps=%d" % (kind, steps + 2), "body": "body", "pre": "pre",
                     "shard": {"kind": kind, "gc": True}, "types": ["int"] * (steps + 2),
                     "budget": 600 if q else 3000})
    return obls
