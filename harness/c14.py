"""C14 - latest delivers an in-order subsequence ending with the newest element.

Symbolic: the schedule (which of {arrival, consumer completion} happens at each step).
Real code executed: streamz.core.latest.update/cb, Stream._emit, sink.update, tornado
Condition, gen.coroutine runner - on the virtual loop.
"""
from engine.vloop import World
from engine.symutil import Verdict, untraced
from harness.common import Producer, run_schedule, drain, pre_schedule, Pruned

META = {
    "bounds": {"quick": "schedules of <= 9 steps over {arrival, complete oldest consumer job}, <= 8 arrivals; "
                        "tornado-future and native-coroutine consumers",
               "thorough": "schedules of <= 10 steps, <= 9 arrivals; loop-iteration-granularity schedules of <= 9 steps"},
    "outside": ["several event loops", "pre-emptive threads"],
    "stubs": ["event loop: engine/vloop.py"],
    "granularity": "coarse schedules let the loop run to quiescence after every action; the latest-fine shards step the loop one iteration at a time (arrivals between two iterations)",
    "assumptions": ["callbacks made ready in one loop iteration run FIFO (asyncio semantics)"],
}


def pre(shard, *choices):
    return True


def body(shard, *choices):
    # only the schedule is symbolic; it is decided lazily by solver forks inside
    # run_schedule, everything else is concrete and runs untraced
    with untraced():
        return _body(shard, *choices)


def _body(shard, *choices):
    vd = Verdict()
    if True:
        from streamz import Stream
        world = World()
        source = Stream(asynchronous=True)
        node = source.latest()
        world.manual_sink(node, "k", native=shard["native"])
        prod = Producer(world, source, range(shard["n"]), awaiting=False)
    try:
        world.loop.run_ready()
        try:
            run_schedule(world, choices, [prod], allowed=(0, 2, 9))
        except Pruned:
            return ""
        # input stops here; let the consumer become free
        ok = drain(world, [], max_steps=40)
        got = world.delivered["k"]
        arrived = prod.i
        for i in range(1, len(got)):
            if got[i] == got[i - 1]:
                vd.add("duplicate-delivery@latest")
            elif got[i] < got[i - 1]:
                vd.add("reordered@latest")
        for x in got:
            vd.check(0 <= x < arrived, "delivered-unknown-element@latest")
        vd.check(ok, "no-quiescence@latest")
        if arrived > 0:
            if not got or got[-1] != arrived - 1:
                vd.add("newest-not-delivered@latest/arrival-while-busy")
        vd.check(not world.loop.errors, "loop-error@latest")
        return vd.result()
    finally:
        world.close()


def body_fine(shard, *choices):
    """Loop-iteration granularity: an arrival does not let the loop run; 'tick' runs exactly
    one loop iteration.  The consumer either completes synchronously (instant) or is
    manual.  This reaches interleavings such as: notify of B still queued, C arrives, the
    consumer takes C and goes back to waiting, then the stale notify fires."""
    with untraced():
        return _fine(shard, *choices)


def _fine(shard, *choices):
    from engine.symutil import decide
    from streamz import Stream
    vd = Verdict()
    world = World()
    try:
        source = Stream(asynchronous=True)
        node = source.latest()
        if shard["consumer"] == "instant":
            world.instant_sink(node, "k")
        else:
            world.manual_sink(node, "k", native=shard.get("native", False))
        world.loop.run_ready()
        arrived = 0
        for c in choices:
            c = decide(c, (0, 2, 7, 8, 9))
            if c is None or c == 9:
                break
            if c == 0:
                if arrived >= shard["n"]:
                    return ""
                world.emit(source, arrived, run=False)
                arrived += 1
            elif c == 2:
                p = world.pending()
                if not p:
                    return ""
                p[0].fut.set_result(None)
            elif c == 7:
                if not world.loop.ready and world.loop.next_deadline() is None:
                    return ""
                world.loop.run_one_iteration()
            else:
                if not world.loop.ready:
                    return ""
                world.loop.run_ready()
        drain(world, [], max_steps=40)
        got = world.delivered["k"]
        for i in range(1, len(got)):
            if got[i] == got[i - 1]:
                vd.add("duplicate-delivery@latest")
            elif got[i] < got[i - 1]:
                vd.add("reordered@latest")
        if arrived > 0 and (not got or got[-1] != arrived - 1):
            vd.add("newest-not-delivered@latest/arrival-while-busy")
        vd.check(not world.loop.errors, "loop-error@latest")
        return vd.result()
    finally:
        world.close()


def obligations(tier):
    steps = 9 if tier == "quick" else 10
    n = 8 if tier == "quick" else 9
    obls = []
    for native in (False, True):
        obls.append({"name": "latest/steps=%d/%s" % (steps, "native" if native else "future"),
                     "body": "body", "pre": "pre", "shard": {"n": n, "native": native},
                     "types": ["int"] * steps, "budget": 300 if tier == "quick" else 1800})
    fsteps = 8 if tier == "quick" else 9
    for consumer in ("instant", "manual"):
        obls.append({"name": "latest-fine/%s/steps=%d" % (consumer, fsteps), "body": "body_fine", "pre": "pre",
                     "shard": {"n": 5 if tier == "quick" else 7, "consumer": consumer},
                     "types": ["int"] * fsteps, "budget": 600 if tier == "quick" else 3000})
    return obls
