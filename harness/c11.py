"""C11 - rolling / cumulative / expanding / ewm results do not depend on batching.

Real code executed: rolling_accumulator, _cumulative_accumulator, diff_expanding, EWMean,
window_accumulator and the wrappers Rolling, Expanding, EWM on model frames.
Symbolic: every value (unbounded ints) and, for time-based rolling, the timestamps.
Sharded: the operation and *every composition* of the table's rows into consecutive
batches (incl. empty batches anywhere).
Oracle: rolling and cumulative results are per-row streams - their concatenation must
equal the model's one-pass result row for row; expanding and ewm are updating streams that
emit one value per batch - the value after the k-th batch must equal the one-pass result at
the last row of the prefix (ewm: closed form sum((1-a)^i x_{t-i}) / sum((1-a)^i)).
"""
from fractions import Fraction

from engine import dfrun as D
from engine.symutil import Verdict
from harness import dfcommon as DC
from harness.c06 import length_patterns

META = {
    "bounds": {"quick": "tables of <= 4 rows in <= 3 batches of <= 2 rows (every pattern incl. empty batches); rolling window 1..3 "
                        "rows and 2..3 ticks (symbolic non-decreasing timestamps), ops sum/count/min/max/mean; "
                        "cumsum/cumprod/cummin/cummax; expanding sum/count/mean; ewm(com in {0,1,3}).mean",
               "thorough": "tables of <= 5 rows in <= 3 batches of <= 3 rows"},
    "outside": ["IEEE rounding", "rolling median/quantile/std/var/aggregate", "min_periods other than the pandas default"],
    "stubs": DC.STUBS,
    "assumptions": ["timestamps non-decreasing"],
}


def pre(shard, *v):
    n = sum(shard["lens"])
    if shard["spec"].get("rolling", ("",))[0] == "value":
        for g in v[n:2 * n]:
            if not (0 <= g <= 3):
                return False
    return True


def ewm_closed_form(xs, com):
    a = Fraction(1, 1) / (1 + Fraction(com))
    w = Fraction(1)
    num = 0
    den = Fraction(0)
    for x in reversed(xs):
        num = num + x * w if not isinstance(x, int) else num + x * w
        den = den + w
        w = w * (1 - a)
    return num / den


def verdict_for(kind, shard, v):
    import mframe
    spec = shard["spec"]
    lens = shard["lens"]
    n = sum(lens)
    xs = list(v[:n])
    ts = None
    if spec.get("rolling", ("",))[0] == "value":
        ts, t = [], 10
        for g in v[n:2 * n]:
            t = t + g
            ts.append(t)
    batches = DC.make_batches(lens, xs, None, ts)
    vd = Verdict()
    op = spec["op"]
    name = op + ("/" + spec["rolling"][0] if "rolling" in spec else "") + \
        ("/" + spec["window"][0] if "window" in spec else "")
    be, outs = DC.run_spec(kind, spec, batches)
    for out in outs:
        if out and isinstance(out[0], str) and out[0].startswith("RAISED"):
            vd.add("raises-%s@%s" % (out[0][7:], name))
            return vd.result()
    per_row = op.startswith("rolling_") or op.startswith("cum")
    if per_row:
        got_k, got_v = [], []
        for out in outs:
            if len(out) != 1:
                vd.add("not-one-result-per-batch@%s" % name)
                return vd.result()
            got_k += out[0]["keys"]
            got_v += out[0]["vals"]
        idx = [i for b in batches for i in b["idx"]]
        full = be.series(xs, idx)
        if op.startswith("cum"):
            exp = D.norm(getattr(full, op)())
        else:
            rw = spec["rolling"]
            exp = D.norm(getattr(full.rolling(be.window_value(rw[1]) if rw[0] == "value" else rw[1]),
                                 op[len("rolling_"):])())
        if not D.same({"keys": got_k, "vals": got_v}, exp, as_map=False):
            if lens[0] == 0:
                vd.add("depends-on-batching(empty-first-batch)@%s" % name)
            else:
                vd.add("depends-on-batching@%s" % name)
        return vd.result()
    seen = 0
    for k, out in enumerate(outs, start=1):
        seen += lens[k - 1]
        if len(out) != 1:
            vd.add("not-one-result-per-batch@%s" % name)
            continue
        if seen == 0:
            continue
        if spec["window"][0] == "ewm":
            pre_x = xs[:seen]
            val = out[0]["vals"][-1] if isinstance(out[0], dict) and out[0]["vals"] else None
            if be.kind == "model":
                exp = ewm_closed_form([mframe.R.of(x) for x in pre_x], spec["window"][1])
            else:
                import pandas as pd
                exp = float(pd.Series(pre_x, dtype="float64").ewm(com=spec["window"][1]).mean().iloc[-1])
            if val is None or not D.num_eq(val, exp):
                if lens[0] == 0:
                    vd.add("depends-on-batching(empty-first-batch)@%s" % name)
                else:
                    vd.add("depends-on-batching@%s" % name)
        else:
            exp = D.oracle(be, {"op": op}, batches, k)
            if not D.same(out[0], exp, as_map=False):
                if lens[0] == 0:
                    vd.add("depends-on-batching(empty-first-batch)@%s" % name)
                else:
                    vd.add("depends-on-batching@%s" % name)
    return vd.result()


def body(shard, *v):
    return DC.with_pandas_replay(lambda: verdict_for("model", shard, v),
                                 lambda: verdict_for("pandas", shard, v), DC.concrete(v))


def obligations(tier):
    q = tier == "quick"
    B = 400 if q else 2000
    pats = length_patterns(3, 2, 4) if q else length_patterns(3, 3, 5)
    specs = []
    for n in (1, 2, 3):
        for o in ("sum", "count", "min", "max", "mean"):
            specs.append({"op": "rolling_" + o, "rolling": ("n", n)})
    for T in (2, 3):
        for o in ("sum", "count", "max", "mean"):
            specs.append({"op": "rolling_" + o, "rolling": ("value", T)})
    for o in ("cumsum", "cumprod", "cummin", "cummax"):
        specs.append({"op": o})
    for o in ("sum", "count", "mean"):
        specs.append({"op": o, "window": ("expanding",)})
    for c in (0, 1, 3):
        specs.append({"op": "mean", "window": ("ewm", c)})
    obls = []
    for spec in specs:
        for lens in pats:
            n = sum(lens)
            by_time = spec.get("rolling", ("",))[0] == "value"
            if q and n > 3 and (by_time or spec["op"] in ("cumprod",)):
                continue
            tag = spec["op"] + ("/%s=%s" % spec["rolling"] if "rolling" in spec else "") + \
                ("/%s" % "-".join(map(str, spec["window"])) if "window" in spec else "")
            obls.append({"name": "%s/lens=%s" % (tag, "-".join(map(str, lens))), "body": "body", "pre": "pre",
                         "shard": {"spec": spec, "lens": list(lens)},
                         "types": ["int"] * (2 * n if by_time else n), "budget": B})
    return obls


def pre_check(tier):
    from engine import model_validation
    return model_validation.run(200 if tier == "quick" else 1000)
