"""C10 - metadata travels with exactly the data it describes.

Same pipelines as C01 (engine/refsem.py carries, per element, the flat list of metadata
entries of the inputs that contributed, in member order).  Symbolic: element values,
which elements carry 0, 1 or 2 metadata dictionaries, source interleaving, flush
positions.  A recording node downstream of *every* node logs the metadata argument.
Also the asynchronous lossless nodes (buffer, delay, rate_limit, timed_window,
partition with timeout, map_async) on the virtual loop.
"""
from engine.symutil import Verdict, pick, pick_bool, untraced
from harness import syncpipe as SP
from harness import c01

META = {
    "bounds": {
        "quick": "every catalogue unit alone (4 elements), chains of 2 core units (3 elements), diamonds and "
                 "2/3-source joins (3-4 elements); each element carries 0, 1 or 2 metadata dicts (symbolic); "
                 "asynchronous nodes: 3 elements through buffer/delay/rate_limit/timed_window/partition(timeout)/map_async",
        "thorough": "units alone 6 elements (4 where values are inspected), chains of 2 core units with 3 key values (3 elements)",
    },
    "outside": ["metadata objects that are not lists of dicts", "Dask scatter/gather (see C20)"],
    "stubs": ["event loop: engine/vloop.py"],
    "assumptions": ["user functions are pure"],
}


def pre_pipe(shard, *v):
    k = shard["k"]
    if not c01.pre_pipe(shard, *v[:len(v) - k]):
        return False
    lo, hi = shard.get("nmd_range", (0, 2))
    for m in v[len(v) - k:]:
        if not (lo <= m <= hi):
            return False
    return True


def compare_md(vd, obs, spec):
    real, ref = obs.real, obs.ref
    for i, (kind, _, _) in enumerate(spec):
        if real.recs[i] is None:
            continue
        seen = real.seen(i)
        exp = ref.emitted[i]
        if len(seen) != len(exp):
            vd.add("wrong-output@%s" % kind)   # value-level deviation (C01's business, reported here too)
            return
        for (x, md), (y, emd) in zip(seen, exp):
            if not isinstance(md, list):
                vd.add("metadata-not-a-list@%s" % kind)
                return
            for m in md:
                if not isinstance(m, dict):
                    vd.add("nested-metadata@%s" % kind)
                    return
            if len(md) != len(emd):
                vd.add("wrong-metadata@%s" % kind)
                return
            for m, em in zip(md, emd):
                if m is not em:
                    vd.add("wrong-metadata@%s" % kind)
                    return


def body_pipe(shard, *v):
    k = shard["k"]
    vals = list(v[:k])
    rest = v[k:]
    nsrc = shard.get("nsrc", 1)
    srcs = None
    if nsrc > 1:
        srcs = [pick(s, 0, nsrc - 1) for s in rest[:k]]
        rest = rest[k:]
    flushes = None
    if shard.get("flush"):
        flushes = [pick_bool(f) for f in rest[:k]]
        rest = rest[k:]
    lo, hi = shard.get("nmd_range", (0, 2))
    nmds = [pick(m, lo, hi) for m in rest[:k]]
    # Values only steer control flow here.  Where some node inspects them they range over
    # the small domain and are decided by solver forks; where no node inspects them
    # (value-independence is what C01 establishes with unbounded symbolic ints) they are
    # replaced by distinct tokens.  After that the path is concrete: run it untraced.
    if shard.get("small", True):
        vals = [pick(x, 0, shard.get("dom", c01.DOM)) for x in vals]
    else:
        vals = list(range(len(vals)))
    with untraced():
        return _run(shard, vals, srcs, flushes, nmds)


def _run(shard, vals, srcs, flushes, nmds):
    vd = Verdict()
    spec = SP.build_spec(shard)
    obs = SP.run_both(shard, vals, srcs=srcs, flushes=flushes, nmds=nmds)
    for e in obs.real_exc:
        if e is not None:
            vd.add("unexpected-exception@emit")
    compare_md(vd, obs, spec)
    return vd.result()


def _obl(name, shard, k, budget, nsrc=1, flush=False):
    o = c01._pipe_obl(name, shard, k, budget, nsrc=nsrc, flush=flush)
    o["types"] = o["types"] + ["int"] * k
    return o


def obligations(tier):
    q = tier == "quick"
    B = 300 if q else 1500
    obls = []
    kA = 4 if q else 6
    for (n,) in SP.chains(1):
        small = SP.inspects([n])
        kk = kA if not small else (3 if q else 4)
        if n == "collect":
            kk = 4
        obls.append(_obl("A/%s/k=%d" % (n, kk), {"template": "chain", "units": [n], "small": small},
                         kk, B, flush=(n == "collect")))
    # a key re-seen inside an open batch with another key in between needs n >= 3 and 4 elements
    for n3 in ("punique3_last", "punique3_first"):
        obls.append(_obl("A/%s/k=4/one-dict-each" % n3, {"template": "chain", "units": [n3], "small": True,
                                                       "nmd_range": (1, 1)}, 4, B))
    for ch in SP.chains(2, SP.CORE):
        small = SP.inspects(ch)
        kk = 3
        obls.append(_obl("B/chain/%s/k=%d" % ("+".join(ch), kk),
                         {"template": "chain", "units": list(ch), "small": small,
                          "dom": 1 if q else 2}, kk, B, flush=("collect" in ch)))
    if False:
        for ch in SP.chains(3, SP.CORE):
            if "collect" in ch and SP.hashes(ch):
                continue
            obls.append(_obl("B/chain/%s/k=3" % "+".join(ch),
                             {"template": "chain", "units": list(ch), "small": SP.inspects(ch)}, 3, B,
                             flush=("collect" in ch)))
    for a, b in ((None, "filter"), ("map", "acc"), ("filter", "slice_1_n_2"), ("map", None)):
        for j in sorted(SP.JOINS):
            obls.append(_obl("B/diamond/%s|%s->%s/k=3" % (a, b, j),
                             {"template": "diamond", "a": a, "b": b, "join": j,
                              "small": SP.inspects([x for x in (a, b) if x])}, 3, B))
    for j in sorted(SP.JOINS):
        obls.append(_obl("B/multi2/%s/k=%d" % (j, 3 if q else 5),
                         {"template": "multi", "join": j, "nsrc": 2, "small": False}, 3 if q else 5, B, nsrc=2))
    for j in sorted(SP.JOINS3):
        obls.append(_obl("B/multi3/%s/k=%d" % (j, 3 if q else 4),
                         {"template": "multi", "join": j, "nsrc": 3, "small": False}, 3 if q else 4, B, nsrc=3))
    from harness import c10_async
    obls.extend(c10_async.obligations(tier))
    return obls
