"""Synchronous-pipeline harness core shared by C01 (values), C10 (metadata), C05 (reference
counts) and C16 (failures): builds the real pipeline and the reference interpreter from
one spec, feeds both the same (symbolic) inputs and returns both observations.
"""
from engine.vloop import World
from engine.symutil import pick, untraced
from engine.refsem import RefPipeline
from engine.pipeline import RealPipeline, make_metadata


class Boom(Exception):
    pass


# ----------------------------------------------------------------- user functions
def inc(x):
    return x + 1


def even(x):
    return x % 2 == 0


def add(a, b):
    return a + b


def add_rs(acc, x):
    return (acc + x, acc - x)


def mod2(x):
    return x % 2


def first(x):
    return x[0]


def tsum(*a):
    t = 0
    for v in a:
        t = t + v
    return t


def ident(x):
    return x


class Faulty:
    """Wraps the user functions of one run: the j-th invocation (global call order)
    raises Boom iff mask[j]."""

    def __init__(self, mask):
        self.mask = mask
        self.n = 0
        self.raised = []

    def wrap(self, f):
        def g(*a, **k):
            j = self.n
            self.n += 1
            if j < len(self.mask) and self.mask[j]:
                self.raised.append(j)
                raise Boom(j)
            return f(*a, **k)
        g.__name__ = getattr(f, "__name__", "f")
        return g


# ----------------------------------------------------------------- unit catalogue
# name -> (kind, params, type_in, type_out, inspects_values)
# types: S scalar int, T 2-tuple of ints, V variable-length tuple, A anything
UNITS = {
    "map": ("map", {"func": inc}, "S", "S", False),
    "filter": ("filter", {"predicate": even}, "S", "S", True),
    "filter_none": ("filter", {"predicate": None}, "A", "A", True),
    "acc": ("accumulate", {"func": add}, "S", "S", False),
    "acc_start": ("accumulate", {"func": add, "start": 10}, "S", "S", False),
    "acc_rs": ("accumulate", {"func": add_rs, "start": 0, "returns_state": True}, "S", "S", False),
    "acc_ws": ("accumulate", {"func": add, "with_state": True}, "S", "T", False),
    "acc_rs_ws": ("accumulate", {"func": add_rs, "start": 1, "returns_state": True,
                                 "with_state": True}, "S", "T", False),
    "slice_1_n_2": ("slice", {"start": 1, "end": None, "step": 2}, "A", "A", False),
    "slice_0_3_1": ("slice", {"start": 0, "end": 3, "step": 1}, "A", "A", False),
    "slice_2_n_n": ("slice", {"start": 2, "end": None, "step": None}, "A", "A", False),
    "slice_n_2_n": ("slice", {"start": None, "end": 2, "step": None}, "A", "A", False),
    "slice_0_n_2": ("slice", {"start": 0, "end": None, "step": 2}, "A", "A", False),
    "partition1": ("partition", {"n": 1}, "A", "V", False),
    "partition2": ("partition", {"n": 2}, "A", "T", False),
    "partition3": ("partition", {"n": 3}, "A", "V", False),
    "partition2_key": ("partition", {"n": 2, "key": mod2}, "S", "T", True),
    "punique1": ("partition_unique", {"n": 1, "keep": "first"}, "A", "V", True),
    "punique2_first": ("partition_unique", {"n": 2, "keep": "first"}, "A", "T", True),
    "punique2_last": ("partition_unique", {"n": 2, "keep": "last"}, "A", "T", True),
    "punique3_first": ("partition_unique", {"n": 3, "keep": "first"}, "A", "V", True),
    "punique3_last": ("partition_unique", {"n": 3, "keep": "last"}, "A", "V", True),
    "punique2_key_last": ("partition_unique", {"n": 2, "keep": "last", "key": mod2}, "S", "T", True),
    "punique2_key_first": ("partition_unique", {"n": 2, "keep": "first", "key": mod2}, "S", "T", True),
    "window1": ("sliding_window", {"n": 1, "return_partial": True}, "A", "V", False),
    "window2": ("sliding_window", {"n": 2, "return_partial": False}, "A", "T", False),
    "window2_partial": ("sliding_window", {"n": 2, "return_partial": True}, "A", "V", False),
    "window3": ("sliding_window", {"n": 3, "return_partial": False}, "A", "V", False),
    "window3_partial": ("sliding_window", {"n": 3, "return_partial": True}, "A", "V", False),
    "unique": ("unique", {}, "A", "A", True),
    "unique_max1": ("unique", {"maxsize": 1}, "A", "A", True),
    "unique_max2": ("unique", {"maxsize": 2}, "A", "A", True),
    "unique_max1_list": ("unique", {"maxsize": 1, "hashable": False}, "A", "A", True),
    "unique_max2_list": ("unique", {"maxsize": 2, "hashable": False}, "A", "A", True),
    "unique_list": ("unique", {"hashable": False}, "A", "A", True),
    "unique_max3_list": ("unique", {"maxsize": 3, "hashable": False}, "A", "A", True),
    "unique_max3": ("unique", {"maxsize": 3}, "A", "A", True),
    "unique_key": ("unique", {"key": mod2}, "S", "S", True),
    "unique_key_max1": ("unique", {"key": mod2, "maxsize": 1}, "S", "S", True),
    "flatten": ("flatten", {}, "V", "S", False),
    "pluck0": ("pluck", {"pick": 0}, "T", "S", False),
    "pluck10": ("pluck", {"pick": [1, 0]}, "T", "T", False),
    "starmap": ("starmap", {"func": tsum}, "V", "S", False),
    "collect": ("collect", {}, "A", "V", False),
    "union1": ("union", {}, "A", "A", False),
    "sink_fn": ("sink", {"func": ident}, "A", "X", False),
}

USER_FUNC_KEYS = ("func", "predicate", "key")


def compatible(tout, tin):
    if tin == "A" or tout == tin:
        return True
    if tin == "V" and tout == "T":
        return True
    if tout == "A":
        return tin in ("S", "A")   # chains start from scalars; A preserves its input type
    return False


def out_type(name, tin):
    t = UNITS[name][3]
    return tin if t == "A" else t


def chains(length, names=None):
    """All type-compatible chains of `length` units fed with scalars.
    Types: S scalar, T 2-tuple of scalars, V variable-length tuple of scalars, X nested tuples
    (only units that do not look inside accept X)."""
    names = names or sorted(n for n in UNITS if n != "sink_fn")
    out = []

    def rec(prefix, t):
        if len(prefix) == length:
            out.append(tuple(prefix))
            return
        for n in names:
            tin, tout = UNITS[n][2], UNITS[n][3]
            if tin == "S" and t != "S":
                continue
            if tin == "T" and t != "T":
                continue
            if tin == "V" and t not in ("T", "V"):
                continue
            if tout == "A":
                nt = t
            elif tin == "A" and t != "S":
                nt = "X"            # a batching node over tuples: nested
            else:
                nt = tout
            rec(prefix + [n], nt)
    rec([], "S")
    return out


HASHING = {"unique", "unique_max1", "unique_max2", "unique_max3", "punique1", "punique2_first",
           "punique2_last", "punique3_first", "punique3_last"}

CORE = ["map", "filter", "acc", "acc_ws", "slice_1_n_2", "partition2", "partition2_key",
        "punique2_last", "punique2_key_first", "window2", "window2_partial", "unique",
        "unique_max1_list", "unique_key", "flatten", "pluck0", "starmap", "collect"]


SMALL_CORE = ["map", "filter", "acc", "partition2", "punique2_last", "window2", "unique", "flatten",
              "pluck0", "starmap", "collect", "slice_1_n_2"]


def hashes(names):
    """Does any unit use the element itself as a dict key?  Hashing a symbolic int makes
    CrossHair realise it through a binary search of solver forks (7x more paths than the
    domain has values); such values are concretised up-front by `pick` (one fork per
    value), which is still exhaustive over the stated domain."""
    for n in names:
        if n in HASHING:
            return True
    return False


def inspects(names):
    """Does any unit look at the *value* (then values range over a small domain)?"""
    for n in names:
        if UNITS[n][4]:
            return True
    return False


# ----------------------------------------------------------------- templates
def chain_spec(names, sink=False):
    spec = [("source", {}, [])]
    for n in names:
        kind, params = UNITS[n][0], UNITS[n][1]
        spec.append((kind, dict(params), [len(spec) - 1]))
    return spec


JOINS = {
    "zip": ("zip", {}),
    "zip_lit_first": ("zip", {"literals": {0: 77}}),
    "zip_lit_mid": ("zip", {"literals": {1: 77}}),
    "zip_lit_last": ("zip", {"literals": {2: 77}}),
    "union": ("union", {}),
    "combine_latest": ("combine_latest", {}),
    "combine_latest_on0": ("combine_latest", {"emit_on": [0], "emit_on_scalar": True}),
    "combine_latest_on1": ("combine_latest", {"emit_on": [1]}),
    "combine_latest_on0s": ("combine_latest", {"emit_on": [0], "emit_on_as": "stream",
                                               "emit_on_scalar": True}),
    "combine_latest_on1s": ("combine_latest", {"emit_on": [1], "emit_on_as": "stream"}),
    "combine_latest_on01": ("combine_latest", {"emit_on": [0, 1]}),
    "zip_latest": ("zip_latest", {}),
}

JOINS3 = {
    "zip3": ("zip", {}),
    "zip3_lit_mid": ("zip", {"literals": {1: 77}}),
    "union3": ("union", {}),
    "combine_latest3": ("combine_latest", {}),
    "combine_latest3_on02": ("combine_latest", {"emit_on": [0, 2]}),
    "combine_latest3_on1s": ("combine_latest", {"emit_on": [1], "emit_on_as": "stream"}),
    "zip_latest3": ("zip_latest", {}),
}


def diamond_spec(a, b, join, tail=None):
    """source -> a, source -> b ; join(a, b) [-> tail]"""
    spec = [("source", {}, [])]
    ia = 0
    if a:
        spec.append((UNITS[a][0], dict(UNITS[a][1]), [0]))
        ia = len(spec) - 1
    ib = 0
    if b:
        spec.append((UNITS[b][0], dict(UNITS[b][1]), [0]))
        ib = len(spec) - 1
    jk, jp = JOINS[join]
    spec.append((jk, dict(jp), [ia, ib]))
    if tail:
        spec.append((UNITS[tail][0], dict(UNITS[tail][1]), [len(spec) - 1]))
    return spec


def multi_source_spec(join, nsrc=2, pre=None, tail=None):
    spec = [("source", {}, []) for _ in range(nsrc)]
    ups = list(range(nsrc))
    if pre:
        for i, n in enumerate(pre):
            if n:
                spec.append((UNITS[n][0], dict(UNITS[n][1]), [i]))
                ups[i] = len(spec) - 1
    jk, jp = (JOINS if nsrc == 2 else JOINS3)[join]
    spec.append((jk, dict(jp), ups))
    if tail:
        spec.append((UNITS[tail][0], dict(UNITS[tail][1]), [len(spec) - 1]))
    return spec


def build_spec(shard):
    t = shard["template"]
    if t == "chain":
        return chain_spec(shard["units"])
    if t == "diamond":
        return diamond_spec(shard.get("a"), shard.get("b"), shard["join"], shard.get("tail"))
    if t == "multi":
        return multi_source_spec(shard["join"], shard.get("nsrc", 2), shard.get("pre"),
                                 shard.get("tail"))
    raise ValueError(t)


def sources_of(spec):
    return [i for i, (k, _, _) in enumerate(spec) if k == "source"]


def wrap_spec(spec, faulty):
    """Same spec with user functions wrapped by the fault injector."""
    out = []
    for kind, params, ups in spec:
        p = dict(params)
        for k in USER_FUNC_KEYS:
            if callable(p.get(k)):
                p[k] = faulty.wrap(p[k])
        out.append((kind, p, ups))
    return out


class Obs:
    pass


def run_both(shard, vals, srcs=None, nmds=None, flushes=None, mask=None, with_ref=False,
             order=None, on_step=None, on_built=None):
    """Run the real pipeline and the reference on the same inputs.

    vals   : element values (symbolic ints)
    srcs   : per element, which source emits it (concrete ints after pick) or None
    nmds   : per element, number of metadata dicts (concrete) or None
    flushes: per element, flush every collect node after it (bools) or None
    mask   : fault mask (list of bools) or None
    """
    base = build_spec(shard)
    k = len(vals)
    real_faulty = Faulty(mask or [])
    ref_faulty = Faulty(mask or [])
    obs = Obs()
    with untraced():
        world = World()
        loop = world.loop
        real_spec = wrap_spec(base, real_faulty)
        ref_spec = wrap_spec(base, ref_faulty)
        mode = shard.get("mode", "async")
        skw = {"asynchronous": True} if mode == "async" else {}
        real = RealPipeline(real_spec, source_kwargs=skw, order=order)
        ref = RefPipeline(ref_spec, order=order)
        callbacks = []
        srcidx = sources_of(base)
        collects = [i for i, (kd, _, _) in enumerate(base) if kd == "collect"]
        if on_built is not None:
            on_built(real)
    obs.world = world
    obs.real = real
    obs.ref = ref
    obs.callbacks = callbacks
    obs.refs = {}
    obs.mds = []
    obs.real_exc = []
    obs.ref_exc = []
    obs.emit_results = []
    try:
        loop.run_ready()
        for i in range(k):
            s = srcidx[srcs[i]] if srcs is not None else srcidx[0]
            nmd = nmds[i] if nmds is not None else 0
            md = make_metadata(i, nmd, with_ref, world.io, callbacks, refs=obs.refs) if nmd else None
            obs.mds.append(md or [])
            # --- real
            e = world.emit(real.nodes[s], vals[i], metadata=md)
            obs.emit_results.append(e)
            obs.real_exc.append(e.exc)
            # --- reference
            try:
                ref.emit(s, vals[i], md)
                obs.ref_exc.append(None)
            except Boom as exc:
                obs.ref_exc.append(exc)
            if flushes is not None and flushes[i]:
                for c in collects:
                    try:
                        real.nodes[c].flush()
                        obs.real_exc.append(None)
                    except Boom as exc:
                        obs.real_exc.append(exc)
                    loop.run_ready()
                    try:
                        ref.flush(c)
                        obs.ref_exc.append(None)
                    except Boom as exc:
                        obs.ref_exc.append(exc)
            if on_step is not None:
                loop.run_ready()
                on_step(i, obs)
        loop.run_ready()
        obs.loop_errors = list(loop.errors)
        obs.real_faulty = real_faulty
        obs.ref_faulty = ref_faulty
        return obs
    finally:
        world.close()


def md_ids(md):
    """Identity of a metadata list as the reference sees it."""
    return [m.get("id") for m in md]


def values_equal(a, b):
    if len(a) != len(b):
        return False
    for x, y in zip(a, b):
        if not (x == y):
            return False
    return True
