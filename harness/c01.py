"""C01 - synchronous pipelines compute the dataflow semantics.

Symbolic: every element value (small domain where a node inspects it, unbounded ints
otherwise), which source emits next (multi-source templates), flush positions
(collect), attachment order of sibling branches.  Sharded: pipeline shape, node kinds
and their parameters, number of elements.
Real code executed: Stream._emit/emit/update, every synchronous node's update,
sink.update, OrderedWeakrefSet iteration.
Oracle: engine/refsem.py (independent list-level interpreter); compared at a recording
node attached to *every* node, plus the global order of all deliveries.
"""
import itertools

from engine.symutil import Verdict, pick, pick_bool, untraced
from harness import syncpipe as SP

META = {
    "bounds": {
        "quick": "A: every catalogue unit alone, 5 elements; B: all type-compatible chains of 2 units "
                 "(4 elements), diamonds a|b->join (12 join variants incl. literals / emit_on subsets), "
                 "2- and 3-source joins with symbolic interleaving (4 elements), feedback loop; "
                 "C: 3 sibling branches in every attachment order; D: slice.update from a symbolic "
                 "pre-state (unbounded arrival index).  Values sym in [0,2] where inspected else unbounded ints.",
        "thorough": "A: 7 elements; B: all chains of 2 (6 elements), chains of 3 over a 12-unit core (4 elements), "
                    "diamonds with tails, joins with pre-nodes, 6-element interleavings",
    },
    "outside": ["user functions that mutate their argument", "more than 3 internal nodes in a chain",
                "unhashable keys other than the hashable=False path", "Batch/DataFrame wrappers"],
    "stubs": ["event loop: engine/vloop.py (only used to build asynchronous=True sources; all nodes here complete synchronously)"],
    "assumptions": ["user functions are pure"],
}

DOM = 2


def _vals_ok(vals, small, dom=DOM):
    if small:
        for v in vals:
            if not (0 <= v <= dom):
                return False
    return True


# ------------------------------------------------------------------ generic pipeline obligation
def pre_pipe(shard, *v):
    k = shard["k"]
    vals = v[:k]
    rest = v[k:]
    if not _vals_ok(vals, shard.get("small", True), shard.get("dom", DOM)):
        return False
    nsrc = shard.get("nsrc", 1)
    if nsrc > 1:
        for s in rest[:k]:
            if not (0 <= s < nsrc):
                return False
    return True


def _compare(vd, obs, spec):
    real, ref = obs.real, obs.ref
    for i, (kind, _, _) in enumerate(spec):
        if real.recs[i] is None:
            continue
        rv = [x for x, _ in real.seen(i)]
        ev = [x for x, _ in ref.emitted[i]]
        if not SP.values_equal(rv, ev):
            vd.add("wrong-output@%s" % kind)
            return
    # global order of all deliveries (sibling branches in attachment order, depth first)
    rl = real.glog
    el = ref.log
    if len(rl) != len(el):
        vd.add("wrong-global-order")
        return
    for (a, x), (b, y) in zip(rl, el):
        if a != b or not (x == y):
            vd.add("wrong-global-order")
            return


def body_pipe(shard, *v):
    k = shard["k"]
    vals = list(v[:k])
    rest = v[k:]
    nsrc = shard.get("nsrc", 1)
    srcs = None
    if nsrc > 1:
        srcs = [pick(s, 0, nsrc - 1) for s in rest[:k]]
        rest = rest[k:]
    flushes = None
    if shard.get("flush"):
        flushes = [pick_bool(f) for f in rest[:k]]
    if shard.get("concretise"):
        # every symbolic input has been decided by solver forks: the rest of this path is
        # a concrete execution and needs no tracing (solver-driven enumeration)
        vals = [pick(x, 0, shard.get("dom", DOM)) for x in vals]
        with untraced():
            return _run_pipe(shard, vals, srcs, flushes)
    return _run_pipe(shard, vals, srcs, flushes)


def _run_pipe(shard, vals, srcs, flushes):
    vd = Verdict()
    spec = SP.build_spec(shard)
    obs = SP.run_both(shard, vals, srcs=srcs, flushes=flushes)
    for e in obs.real_exc:
        if e is not None:
            vd.add("unexpected-exception@emit")
    _compare(vd, obs, spec)
    vd.check(not obs.loop_errors, "loop-error")
    return vd.result()


# ------------------------------------------------------------------ sibling order
def pre_sib(shard, perm, *vals):
    return 0 <= perm <= 5


def body_sib(shard, perm, *vals):
    p = pick(perm, 0, 5)
    order3 = list(itertools.permutations([1, 2, 3]))[p]
    spec = [("source", {}, []), ("map", {"func": SP.inc}, [0]),
            ("filter", {"predicate": None}, [0]), ("accumulate", {"func": SP.add}, [0])]
    vd = Verdict()
    from engine.vloop import World
    from engine.refsem import RefPipeline
    from engine.pipeline import RealPipeline
    order = [0] + list(order3)
    with untraced():
        world = World()
        real = RealPipeline(spec, source_kwargs={"asynchronous": True}, order=order)
        ref = RefPipeline(spec, order=order)
    try:
        for x in vals:
            world.emit(real.nodes[0], x)
            ref.emit(0, x)
        rl, el = real.glog, ref.log
        if len(rl) != len(el):
            vd.add("wrong-sibling-order")
        else:
            for (a, x), (b, y) in zip(rl, el):
                if a != b or not (x == y):
                    vd.add("wrong-sibling-order")
                    break
        return vd.result()
    finally:
        world.close()


# ------------------------------------------------------------------ feedback loop (core.rst)
def f3(x):
    return (x + 1) % 3


def pre_fb(shard, *vals):
    return _vals_ok(vals, True)


def body_fb(shard, *vals):
    from engine.vloop import World
    from engine.refsem import RefPipeline
    from engine.pipeline import RealPipeline
    spec = [("source", {}, [2]), ("unique", {}, [0]), ("map", {"func": f3}, [1])]
    vd = Verdict()
    with untraced():
        world = World()
        real = RealPipeline([("source", {}, []), spec[1], spec[2]],
                            source_kwargs={"asynchronous": True})
        real.nodes[2].connect(real.nodes[0])
        ref = RefPipeline(spec)
    try:
        for x in vals:
            world.emit(real.nodes[0], x)
            ref.emit(0, x)
        for i in range(3):
            rv = [x for x, _ in real.seen(i)]
            ev = [x for x, _ in ref.emitted[i]]
            if not SP.values_equal(rv, ev):
                vd.add("wrong-output@feedback")
                break
        return vd.result()
    finally:
        world.close()


def cap3(t):
    v = t[0] + 1
    return v if v < 3 else 3


def pre_fbzip(shard, *v):
    k = len(v) // 2
    for x in v[:k]:
        if not (0 <= x <= 2):
            return False
    for s in v[k:]:
        if not (0 <= s <= 1):
            return False
    return True


def body_fbzip(shard, *v):
    """zip(a, b) -> sink, and zip -> map(cap3) -> unique -> back into a: an element re-enters
    the zip while the zip is still emitting."""
    from engine.vloop import World
    from engine.refsem import RefPipeline
    from engine.pipeline import RealPipeline
    k = len(v) // 2
    vals = [pick(x, 0, 2) for x in v[:k]]
    srcs = [pick(x, 0, 1) for x in v[k:]]
    with untraced():
        vd = Verdict()
        spec = [("source", {}, [4]), ("source", {}, []), ("zip", {}, [0, 1]),
                ("map", {"func": cap3}, [2]), ("unique", {}, [3])]
        world = World()
        real = RealPipeline([("source", {}, []), spec[1], spec[2], spec[3], spec[4]],
                            source_kwargs={"asynchronous": True})
        real.nodes[4].connect(real.nodes[0])
        ref = RefPipeline(spec)
        try:
            for x, s in zip(vals, srcs):
                world.emit(real.nodes[s], x)
                ref.emit(s, x)
            for i in range(5):
                rv = [x for x, _ in real.seen(i)]
                ev = [x for x, _ in ref.emitted[i]]
                if not SP.values_equal(rv, ev):
                    vd.add("wrong-output@feedback-zip")
                    break
            return vd.result()
        finally:
            world.close()


def plus10(x):
    return x + 10


def lt40(x):
    return x < 40


def pre_fbpart(shard, *v):
    for x in v:
        if not (0 <= x <= 3):
            return False
    return True


def body_fbpart(shard, *v):
    """source -> partition(2) -> flatten -> map(+10) -> filter(<40) -> unique -> back into source:
    elements re-enter the partition while it is emitting."""
    from engine.vloop import World
    from engine.refsem import RefPipeline
    from engine.pipeline import RealPipeline
    vals = [pick(x, 0, 3) for x in v]
    with untraced():
        vd = Verdict()
        kind = shard["node"]
        params = {"n": 2} if kind != "sliding_window" else {"n": 2, "return_partial": False}
        spec = [("source", {}, [5]), (kind, params, [0]), ("flatten", {}, [1]),
                ("map", {"func": plus10}, [2]), ("filter", {"predicate": lt40}, [3]), ("unique", {}, [4])]
        world = World()
        real = RealPipeline([("source", {}, [])] + spec[1:], source_kwargs={"asynchronous": True})
        real.nodes[5].connect(real.nodes[0])
        ref = RefPipeline(spec)
        try:
            for x in vals:
                world.emit(real.nodes[0], x)
                ref.emit(0, x)
            for i in range(6):
                rv = [x for x, _ in real.seen(i)]
                ev = [x for x, _ in ref.emitted[i]]
                if not SP.values_equal(rv, ev):
                    vd.add("wrong-output@feedback-%s" % kind)
                    break
            return vd.result()
        finally:
            world.close()


# ------------------------------------------------------------------ slice: unbounded step
def pre_slice_step(shard, i):
    return i >= 0


def body_slice_step(shard, i):
    """slice.update from a symbolic pre-state `state = i` (arrival index unbounded):
    the element passes iff i in range(start or 0, end if end is not None else inf, step or 1)
    and the node has detached itself iff i+1 >= end."""
    from streamz import Stream
    start, end, step = shard["start"], shard["end"], shard["step"]
    vd = Verdict()
    with untraced():
        src = Stream()
        node = src.slice(start, end, step)
        out = []
        node.sink(out.append)
    s0, e0, st = (start or 0), end, (step or 1)
    if e0 is not None and i >= e0:
        return ""     # not reachable: the node detached itself at index e0-1 (checked below)
    node.state = i
    node.update("x")
    expect = (i >= s0) and ((i - s0) % st == 0)
    vd.check((len(out) == 1) == expect, "wrong-output@slice")
    detached = node not in list(src.downstreams)
    should = e0 is not None and i + 1 >= e0
    vd.check(detached == should, "wrong-detach@slice")
    return vd.result()


# ------------------------------------------------------------------ obligations
def _pipe_obl(name, shard, k, budget, nsrc=1, flush=False):
    shard = dict(shard)
    shard["k"] = k
    names = list(shard.get("units", [])) + [shard.get(x) for x in ("a", "b", "tail")] + \
        list(shard.get("pre") or [])
    shard["concretise"] = SP.hashes([n for n in names if n])
    shard["nsrc"] = nsrc
    shard["flush"] = flush
    n = k + (k if nsrc > 1 else 0) + (k if flush else 0)
    types = ["int"] * (k + (k if nsrc > 1 else 0)) + ["bool"] * (k if flush else 0)
    return {"name": name, "body": "body_pipe", "pre": "pre_pipe", "shard": shard,
            "types": types, "budget": budget}


def obligations(tier):
    q = tier == "quick"
    obls = []
    B = 240 if q else 1200
    # A: every unit alone
    kA = 5 if q else 7
    for (n,) in SP.chains(1):
        small = SP.inspects([n])
        obls.append(_pipe_obl("A/%s/k=%d" % (n, kA),
                              {"template": "chain", "units": [n], "small": small},
                              kA if small or not q else kA, B, flush=(n == "collect")))
    # eviction order of a history of 3 needs 7 elements over 4 distinct values ([1,2,3,1,4,3,2])
    obls.append(_pipe_obl("A/unique_max3_list/k=7/dom=3", {"template": "chain", "units": ["unique_max3_list"],
                                                          "small": True, "dom": 3}, 7, 900 if q else 2400))
    obls.append(_pipe_obl("A/unique_max3/k=6/dom=3", {"template": "chain", "units": ["unique_max3"],
                                                     "small": True, "dom": 3}, 6, 900 if q else 2400))
    # B: chains
    kB = 4
    for ch in (SP.chains(2, SP.CORE) if q else SP.chains(2)):
        small = SP.inspects(ch)
        kk = kB if (q or SP.hashes(ch) or "collect" in ch) else 6
        obls.append(_pipe_obl("B/chain/%s/k=%d" % ("+".join(ch), kk),
                              {"template": "chain", "units": list(ch), "small": small},
                              kk, B, flush=("collect" in ch)))
    if not q:
        for ch in SP.chains(3, SP.SMALL_CORE):
            small = SP.inspects(ch)
            obls.append(_pipe_obl("B/chain/%s/k=4" % "+".join(ch),
                                  {"template": "chain", "units": list(ch), "small": small},
                                  4, B, flush=("collect" in ch)))
    # B: diamonds
    As = [None, "map", "filter"] if q else [None, "map", "filter", "unique", "acc"]
    Bs = [None, "filter", "acc", "slice_1_n_2"] if q else [None, "filter", "acc", "slice_1_n_2",
                                                         "unique_max1", "map"]
    tails = [None] if q else [None, "window2"]
    for a in As:
        for b in Bs:
            if a is None and b is None:
                continue   # source joined with itself = parallel edges, outside the property
            for j in sorted(SP.JOINS):
                for t in tails:
                    small = SP.inspects([x for x in (a, b, t) if x])
                    obls.append(_pipe_obl("B/diamond/%s|%s->%s%s/k=4" % (a, b, j, "+" + t if t else ""),
                                          {"template": "diamond", "a": a, "b": b, "join": j,
                                           "tail": t, "small": small}, 4, B))
    # B: several entry points, symbolic interleaving
    kM = 4 if q else 6
    for j in sorted(SP.JOINS):
        obls.append(_pipe_obl("B/multi2/%s/k=%d" % (j, kM),
                              {"template": "multi", "join": j, "nsrc": 2, "small": False}, kM, B, nsrc=2))
        if not q:
            for pre in (["filter", None], [None, "window2"], ["unique", "acc"]):
                obls.append(_pipe_obl("B/multi2/%s/pre=%s/k=5" % (j, pre),
                                      {"template": "multi", "join": j, "nsrc": 2, "pre": pre,
                                       "small": SP.inspects([p for p in pre if p])}, 5, B, nsrc=2))
    for j in sorted(SP.JOINS3):
        obls.append(_pipe_obl("B/multi3/%s/k=%d" % (j, 4 if q else 5),
                              {"template": "multi", "join": j, "nsrc": 3, "small": False},
                              4 if q else 5, B, nsrc=3))
    # C: sibling order
    obls.append({"name": "C/siblings/k=%d" % (2 if q else 3), "body": "body_sib", "pre": "pre_sib",
                 "shard": {}, "types": ["int"] * (1 + (2 if q else 3)), "budget": B})
    # feedback
    obls.append({"name": "B/feedback/k=%d" % (3 if q else 4), "body": "body_fb", "pre": "pre_fb",
                 "shard": {}, "types": ["int"] * (3 if q else 4), "budget": B})
    obls.append({"name": "B/feedback-zip/k=%d" % (4 if q else 5), "body": "body_fbzip", "pre": "pre_fbzip",
                 "shard": {}, "types": ["int"] * (2 * (4 if q else 5)), "budget": B})
    for node in ("partition", "partition_unique", "sliding_window"):
        obls.append({"name": "B/feedback-%s/k=%d" % (node, 4 if q else 5), "body": "body_fbpart", "pre": "pre_fbpart",
                     "shard": {"node": node}, "types": ["int"] * (4 if q else 5), "budget": B})
    # D: slice unbounded step
    rng = [None, 0, 1, 2, 3]
    for s in rng:
        for e in rng:
            for st in [None, 1, 2, 3]:
                obls.append({"name": "D/slice-step/%s:%s:%s" % (s, e, st), "body": "body_slice_step",
                             "pre": "pre_slice_step", "shard": {"start": s, "end": e, "step": st},
                             "types": ["int"], "budget": 120})
    return obls
