"""C16 on a stateful library function handed to accumulate: a windowed streaming aggregation
whose (user supplied) Aggregation.on_new raises for one batch.  The accumulate node must
keep the state it had - including the window backlog held inside that state - so that later
batches are aggregated as if the failing batch had never been offered."""
from engine import dfrun as D
from engine.symutil import Verdict, pick
from harness import dfcommon as DC


class Boom(Exception):
    pass


def make_agg(fail_at):
    import streamz.dataframe.aggregations as A

    class CheckedSum(A.Sum):
        calls = -1          # the wrapper calls on_new once with the example at construction

        def on_new(self, acc, new):
            type(self).calls += 1
            if type(self).calls == fail_at:
                raise Boom()
            return A.Sum.on_new(self, acc, new)
    return CheckedSum()


def pre(shard, *v):
    return 0 <= v[0] < len(shard["lens"])


def body(shard, j, *vals):
    lens = shard["lens"]
    j = pick(j, 0, len(lens) - 1)
    return DC.with_pandas_replay(lambda: verdict_for("model", shard, j, vals),
                                 lambda: verdict_for("pandas", shard, j, vals), DC.concrete(vals))


def run(kind, shard, batches, fail_at):
    from streamz import Stream
    from streamz.dataframe import Series
    be = D.Backend(kind)
    saved = D.install_model() if kind == "model" else None
    try:
        src = Stream()
        sdf = Series(example=be.series([0], [0]), stream=src)
        w = shard["window"]
        win = sdf.window(n=w[1]) if w[0] == "n" else sdf.expanding()
        out = win.aggregate(make_agg(fail_at + 1 if fail_at is not None else None))
        L = out.stream.sink_to_list()
        res = []
        for b in batches:
            n0 = len(L)
            try:
                sdf.emit(be.series(b["x"], b["idx"]))
                res.append([D.norm(x) for x in L[n0:]])
            except Boom:
                res.append("RAISED")
        return res
    finally:
        if saved:
            D.uninstall_model(saved)


def verdict_for(kind, shard, j, vals):
    lens = shard["lens"]
    batches = DC.make_batches(lens, list(vals))
    vd = Verdict()
    name = "window-%s-sum" % shard["window"][0]
    got = run(kind, shard, batches, j)
    ref = run(kind, shard, batches[:j] + batches[j + 1:], None)
    if got[j] != "RAISED":
        vd.add("exception-swallowed@%s" % name)
        return vd.result()
    rest = got[:j] + got[j + 1:]
    for a, b in zip(rest, ref):
        if a == "RAISED" or len(a) != len(b):
            vd.add("wrong-output-after-failure@%s" % name)
            break
        if not all(D.same(x, y, as_map=False) for x, y in zip(a, b)):
            vd.add("state-changed-by-failing-call@%s" % name)
            break
    return vd.result()


def obligations(tier):
    q = tier == "quick"
    obls = []
    for w in (("n", 2), ("n", 3), ("expanding", 0)):
        for lens in ([(1, 1, 1, 1), (2, 1, 2), (1, 2, 1, 1)] if q else
                     [(1, 1, 1, 1), (2, 1, 2), (1, 2, 1, 1), (2, 2, 2), (1, 1, 1, 1, 1), (3, 1, 2)]):
            obls.append({"name": "df/window-%s%s/lens=%s" % (w[0], w[1] or "", "-".join(map(str, lens))),
                         "module": "harness.c16_df", "body": "body", "pre": "pre",
                         "shard": {"window": list(w), "lens": list(lens)},
                         "types": ["int"] * (1 + sum(lens)), "budget": 300 if q else 1500})
    return obls
