"""Shared by the streaming-dataframe checks (C06, C07, C11, C12)."""
from engine import dfrun as D
from engine.symutil import Verdict, untraced, is_tracing

STUBS = ["pandas -> mframe (list-backed model of the pandas API slice streamz/dataframe uses; differential "
         "validation against the real pandas in the check's pre_check; every counterexample is re-run on the real "
         "pandas before it is reported)",
         "pd.Timedelta / pd.Timestamp -> integer ticks"]


def layout(lens):
    """Slices of the flat value list per batch."""
    out, i = [], 0
    for n in lens:
        out.append((i, i + n))
        i += n
    return out


def make_batches(lens, xs, ks=None, ts=None):
    batches = []
    pos = 0
    for n in lens:
        b = {"x": list(xs[pos:pos + n]),
             "k": list(ks[pos:pos + n]) if ks is not None else [0] * n,
             "idx": list(ts[pos:pos + n]) if ts is not None else list(range(pos, pos + n))}
        batches.append(b)
        pos += n
    return batches


def run_spec(kind, spec, batches, start=None):
    """Feed the batches through the real wrappers; returns the list of emitted results
    (normalised) - one per batch - or raises."""
    be = D.Backend(kind)
    be.time = kind == "pandas" and (spec.get("window", ("",))[0] == "value"
                                    or spec.get("rolling", ("",))[0] == "value")
    saved = D.install_model() if kind == "model" else None
    try:
        emit, L, make = D.build(be, spec, {"x": [0], "k": [0], "idx": [0]}, start=start)
        outs = []
        for b in batches:
            n0 = len(L)
            try:
                emit(b)
            except (ZeroDivisionError, IndexError) as exc:
                outs.append(["RAISED:" + type(exc).__name__])
                continue
            outs.append([D.norm(x) if not isinstance(x, tuple) else x for x in L[n0:]])
        return be, outs
    finally:
        if saved:
            D.uninstall_model(saved)


def concrete(vals):
    for v in vals:
        if type(v) not in (int, bool, float):
            return False
    return True


def with_pandas_replay(model_verdict_fn, pandas_verdict_fn, args_concrete):
    """Verdict from the model; on a concrete replay the same run is repeated on the real
    pandas and must agree, otherwise the model (not streamz) is at fault -> harness error."""
    try:
        v = model_verdict_fn()
    except (AttributeError, NotImplementedError) as exc:
        import traceback
        tb = traceback.extract_tb(exc.__traceback__)
        if any("mframe.py" in fr.filename or "aggregations.py" in fr.filename or "dataframe/core.py" in fr.filename
               for fr in tb):
            # streamz used a pandas API the model does not provide: the model (not streamz) is at fault
            return "HARNESS:model-lacks-api(%s)" % str(exc)[:80]
        raise
    if args_concrete and not is_tracing():
        pv = pandas_verdict_fn()
        if pv != v:
            return "HARNESS:model-disagrees-with-pandas(model=%s|pandas=%s)" % (v, pv)
    return v
