"""C02 - asynchronous timing never changes what lossless pipelines deliver.

Symbolic: the schedule - at every step one of {producer 0/1 emits, the oldest or the
second-oldest pending consumer job completes, the clock jumps to the next timer}.
Real code executed: buffer, delay, rate_limit, map_async, timed_window, partition(timeout),
zip, union, sink with tornado-future and native-coroutine consumers, tornado's coroutine
runner / Queue / Condition, asyncio Task/Queue/gather/sleep - on the virtual loop.
Oracle at quiescence: per sink, concatenation of delivered batches == synchronous
semantics of what the producers emitted, each once, in producer order; no exception
surfaced to a producer or was lost in the loop.
"""
from engine.symutil import Verdict
from harness import asyncpipe as AP

META = {
    "bounds": {
        "quick": "schedules of <= 8 steps, <= 3 elements per producer (awaiting and blind producers), "
                 "buffer n in {1,2}, map_async parallelism in {1,2} with out-of-order job completion, "
                 "interval/timeout 2 ticks; tornado-future and native-coroutine sinks; 20 templates",
        "thorough": "schedules of <= 9 steps, <= 4 elements, parallelism up to 3",
    },
    "outside": ["wall-clock effects", "several event loops", "pre-emptive threads"],
    "stubs": ["event loop + clock: engine/vloop.py"],
    "assumptions": ["callbacks made ready in one loop iteration run FIFO (asyncio semantics)",
                    "payloads are opaque tokens (these nodes never inspect them)"],
}


def oracle(r, vd):
    t = r.t
    w = r.world
    name = r.shard_name
    if not r.quiet:
        vd.add("not-all-delivered@%s" % name)
    if t.kind == "linear":
        p = r.producers[0]
        exp = t.skeleton(p.items[:p.i])
        for cname in t.sinks:
            got = AP.delivered_flat(r, cname) if cname == "k" else list(w.delivered[cname])
            e = exp
            if cname == "k2" and name == "two-sinks":
                e = [x + 1000 for x in p.items[:p.i]]
            if cname == "k2" and name == "buffer+direct":
                e = p.items[:p.i]
            if got != e:
                if sorted(got) == sorted(e):
                    vd.add("reordered@%s" % name)
                elif len(got) > len(e):
                    vd.add("duplicated@%s" % name)
                else:
                    vd.add("lost@%s" % name)
    elif t.kind == "zip2":
        m = min(p.i for p in r.producers)
        exp = list(zip(*[p.items[:m] for p in r.producers]))
        got = list(w.delivered["k"])
        if got != exp:
            vd.add("wrong-tuples@%s" % name)
    else:
        got = list(w.delivered["k"])
        for p in r.producers:
            mine = [x for x in got if x in p.items]
            if mine != p.items[:p.i]:
                vd.add("lost-or-reordered@%s" % name)
    if "partition" in name:
        for cname in t.sinks:
            for b in w.delivered[cname]:
                if isinstance(b, (tuple, list)) and len(b) == 0:
                    vd.add("empty-partition@%s" % name)
    for e in w.emits:
        if e.exc is not None:
            vd.add("producer-saw-exception@%s" % name)
    if w.loop.errors:
        vd.add("loop-error@%s" % name)


def body(shard, *choices):
    vd = Verdict()
    r = AP.run(shard, choices)
    if r.pruned:
        return ""
    r.shard_name = shard["template"]
    oracle(r, vd)
    return vd.result()


def pre(shard, *choices):
    return AP.pre(shard, *choices)


def templates(tier):
    q = tier == "quick"
    out = []
    for native in (False, True):
        for awaiting in (True, False):
            base = {"native": native, "awaiting": awaiting, "items": 3 if q else 4}
            for n in (1, 2):
                out.append(dict(base, template="buffer", n=n))
            out.append(dict(base, template="map+buffer+map", n=1))
            out.append(dict(base, template="delay", timers=True))
            out.append(dict(base, template="rate_limit", timers=True))
            for n in ((1, 2) if q else (1, 2, 3)):
                out.append(dict(base, template="map_async", n=n, out_of_order=True))
            out.append(dict(base, template="map_async", n=2, out_of_order=True, slow_sink=True))
            out.append(dict(base, template="timed_window", timers=True))
            out.append(dict(base, template="partition-timeout", n=2, timers=True))
            out.append(dict(base, template="direct"))
            out.append(dict(base, template="flatten-direct", out_of_order=True, items=2))
            if awaiting:
                out.append(dict(base, template="buffer+delay", n=1, timers=True))
                out.append(dict(base, template="delay+buffer", n=1, timers=True))
                out.append(dict(base, template="rate_limit+buffer", n=1, timers=True))
                out.append(dict(base, template="buffer+rate_limit", n=1, timers=True))
                out.append(dict(base, template="map_async+partition-timeout", n=2, timers=True,
                                out_of_order=True))
                out.append(dict(base, template="timed_window+buffer", n=1, timers=True))
                out.append(dict(base, template="buffer+timed_window", n=1, timers=True))
                out.append(dict(base, template="zip-buffer-delay", n=1, timers=True, items=2))
                out.append(dict(base, template="zip", n=1, items=2 if q else 3))
                out.append(dict(base, template="zip3", n=1, items=2))
                out.append(dict(base, template="union-delay", timers=True, items=2))
                out.append(dict(base, template="union", items=2))
    # loop-iteration granularity (arrivals / completions between two loop iterations)
    for tname, kw in (("buffer", {"n": 1}), ("timed_window", {"timers": True}), ("partition-timeout", {"n": 2, "timers": True}),
                      ("map_async", {"n": 1}), ("delay", {"timers": True}), ("zip", {"n": 1, "items": 2})):
        out.append(dict({"native": False, "awaiting": False, "items": 3, "fine": True}, template=tname, **kw))
    # four un-awaited emissions parked at buffer(1), the consumer finishes, then loop-iteration steps
    out.append({"native": False, "awaiting": False, "items": 6, "fine": True, "template": "buffer", "n": 1,
                "prefix": [0, 8, 0, 8, 0, 0, 0], "steps": 7})
    out.append({"native": False, "awaiting": False, "items": 6, "fine": True, "template": "map_async", "n": 1,
                "prefix": [0, 8, 0, 8, 0, 8, 2], "steps": 6})
    return out


def obligations(tier):
    q = tier == "quick"
    steps = 8 if q else 9
    obls = []
    for sh in templates(tier):
        nm = "%s/n=%s/%s/%s/steps=%d" % (sh["template"], sh.get("n", "-"),
                                         "native" if sh["native"] else "future",
                                         "await" if sh["awaiting"] else "blind", steps)
        if sh.get("slow_sink"):
            nm += "/slow-sink"
        if sh.get("fine"):
            nm += "/fine"
        st = steps - 1 if (q and (sh.get("fine") or sh["template"] == "zip3")) else steps
        if sh.get("steps"):
            st = sh["steps"]
            nm += "/prefix"
        obls.append({"name": nm.replace("steps=%d" % steps, "steps=%d" % st), "body": "body", "pre": "pre",
                     "shard": sh, "types": ["int"] * st, "budget": 400 if q else 2400})
    return obls
