"""C06 - streaming dataframe aggregations equal pandas on everything seen so far.

Real code executed: aggregations.py (Sum, Mean, Count, Size, ValueCounts, Groupby{Sum,Count,
Size,Mean,Var}, accumulator, groupby_accumulator), dataframe/core.py wrappers (Series,
DataFrame, Frame.aggregate, GroupBy._accumulate, map_partitions, __getitem__, assign,
operators), collection.py, Stream.accumulate/zip/map - on model frames (mframe).
Symbolic: every value (unbounded ints), every group key (domain {0,1,2}); sharded: the
aggregation and every composition of the batch lengths, incl. empty batches anywhere.
Oracle: the backend's own one-shot aggregation over the concatenated prefix whenever
that has at least one row (mean/var compared exactly over the reals).
"""
import itertools

from engine import dfrun as D
from engine.symutil import Verdict, pick_bool
from harness import dfcommon as DC

META = {
    "bounds": {"quick": "<= 3 batches of <= 2 rows (every length pattern incl. empty batches), values unbounded symbolic ints, "
                        "group keys symbolic in {0,1,2}; sum/count/size/mean/value_counts on series, groupby sum/count/size/"
                        "mean/var by column and by streaming series; elementwise expressions feeding reductions",
               "thorough": "<= 3 batches of <= 3 rows, total <= 5 rows"},
    "outside": ["IEEE rounding (mean/var are compared over the reals)", "std is checked as var (square root is irrational)",
                "NaN inputs for var/value_counts/streaming groupers", "cudf", "string/categorical dtypes", "anything pandas does that mframe does not model"],
    "stubs": DC.STUBS,
    "assumptions": ["mframe agrees with pandas on the operations used (validated on every run)"],
}

KEYDOM = 2


def pre(shard, *v):
    n = sum(shard["lens"])
    if shard["spec"].get("groupby") or shard["spec"]["op"] == "value_counts" or shard.get("keys"):
        for k in v[n:2 * n]:
            if not (0 <= k <= KEYDOM):
                return False
    if shard["spec"]["op"] == "value_counts":
        for x in v[:n]:
            if not (0 <= x <= KEYDOM):
                return False
    return True


def verdict_for(kind, shard, v):
    spec = shard["spec"]
    lens = shard["lens"]
    n = sum(lens)
    xs = list(v[:n])
    gb = bool(spec.get("groupby"))
    ks = list(v[n:2 * n]) if gb else None
    if shard.get("nan"):
        flags = v[len(v) - n:]
        xs = [None if pick_bool(f) else x for x, f in zip(xs, flags)]
    batches = DC.make_batches(lens, xs, ks)
    vd = Verdict()
    name = spec["op"] + ("/groupby-" + spec["groupby"] if spec.get("groupby") else "") + \
        ("/nan" if shard.get("nan") else "")
    try:
        be, outs = DC.run_spec(kind, spec, batches)
    except ZeroDivisionError:
        return "raises-ZeroDivisionError@%s" % name
    as_map = spec["op"] == "value_counts" or bool(spec.get("groupby")) or spec.get("kind") == "frame2"
    seen = 0
    for k, out in enumerate(outs, start=1):
        seen += lens[k - 1]
        if len(out) != 1:
            vd.add("not-one-result-per-batch@%s" % name)
            continue
        if seen == 0:
            continue                       # nothing is owed for an empty prefix
        exp = D.oracle(be, spec, batches, k)
        if not D.same(out[0], exp, as_map=as_map):
            if exp is None and not isinstance(out[0], dict) and D.num_eq(out[0], 0):
                # all rows seen so far are NaN: pandas says NaN, the streaming mean says 0
                vd.add("all-nan-prefix-gives-0@%s" % name)
            elif sum(1 for L in lens[:k] if L == 0) and lens[0] == 0:
                vd.add("wrong-after-empty-first-batch@%s" % name)
            else:
                vd.add("wrong-value@%s" % name)
    return vd.result()


def body(shard, *v):
    return DC.with_pandas_replay(lambda: verdict_for("model", shard, v),
                                 lambda: verdict_for("pandas", shard, v), DC.concrete(v))


# ---------------------------------------------------------------- elementwise expressions
EXPRS = ["x+1", "x*2-k", "x>k", "filter-x>0", "select", "assign", "filter-sum", "filter-groupby"]


def expr_verdict(kind, shard, v):
    from streamz import Stream
    from streamz.dataframe import DataFrame
    lens = shard["lens"]
    n = sum(lens)
    xs, ks = list(v[:n]), list(v[n:2 * n])
    batches = DC.make_batches(lens, xs, ks)
    be = D.Backend(kind)
    saved = D.install_model() if kind == "model" else None
    vd = Verdict()
    e = shard["expr"]
    try:
        src = Stream()
        ex = be.frame({"x": [], "k": []}, [])
        sdf = DataFrame(example=ex, stream=src)
        if e == "x+1":
            out, f = sdf.x + 1, (lambda df: df.x + 1)
        elif e == "x*2-k":
            out, f = sdf.x * 2 - sdf.k, (lambda df: df.x * 2 - df.k)
        elif e == "x>k":
            out, f = sdf.x > sdf.k, (lambda df: df.x > df.k)
        elif e == "filter-x>0":
            out, f = sdf[sdf.x > 0].x, (lambda df: df[df.x > 0].x)
        elif e == "select":
            out, f = sdf[["x"]].x, (lambda df: df[["x"]].x)
        elif e == "assign":
            out, f = sdf.assign(z=sdf.x + sdf.k).z, (lambda df: df.assign(z=df.x + df.k).z)
        elif e == "filter-sum":
            out, f = sdf[sdf.x > 0].x.sum(), None
        else:
            out, f = sdf[sdf.x > 0].groupby("k").x.sum(), None
        L = out.stream.sink_to_list()
        cum = {"x": [], "k": [], "idx": []}
        for i, b in enumerate(batches):
            n0 = len(L)
            sdf.emit(be.frame({"x": b["x"], "k": b["k"]}, b["idx"]))
            got = L[n0:]
            if len(got) != 1:
                vd.add("not-one-result-per-batch@expr-%s" % e)
                continue
            if f is not None:
                exp = f(be.frame({"x": b["x"], "k": b["k"]}, b["idx"]))
                if not D.same(D.norm(got[0]), D.norm(exp), as_map=False):
                    vd.add("wrong-value@expr-%s" % e)
            else:
                for key in cum:
                    cum[key] += b[key]
                keep = [j for j, x in enumerate(cum["x"]) if x > 0]
                if not keep:
                    continue
                fr = be.frame({"x": [cum["x"][j] for j in keep], "k": [cum["k"][j] for j in keep]},
                              [cum["idx"][j] for j in keep])
                exp = fr.x.sum() if e == "filter-sum" else fr.groupby("k").x.sum()
                if not D.same(D.norm(got[0]), D.norm(exp), as_map=True):
                    vd.add("wrong-value@expr-%s" % e)
        return vd.result()
    finally:
        if saved:
            D.uninstall_model(saved)


def body_expr(shard, *v):
    return DC.with_pandas_replay(lambda: expr_verdict("model", shard, v),
                                 lambda: expr_verdict("pandas", shard, v), DC.concrete(v))


def pre_expr(shard, *v):
    n = sum(shard["lens"])
    for k in v[n:2 * n]:
        if not (0 <= k <= KEYDOM):
            return False
    return True


def length_patterns(nb, maxrows, total=None):
    out = []
    for lens in itertools.product(range(maxrows + 1), repeat=nb):
        if total is not None and sum(lens) > total:
            continue
        if sum(lens) == 0:
            continue
        out.append(lens)
    return out


SPECS = ([{"op": o} for o in ("sum", "count", "size", "mean", "value_counts")]
         + [{"op": o, "kind": "frame2"} for o in ("sum", "count", "mean")]
         + [{"op": o, "kind": "frame", "groupby": g}
            for o in ("sum", "count", "size", "mean", "var") for g in ("column", "stream")])


def obligations(tier):
    q = tier == "quick"
    B = 300 if q else 1500
    obls = []
    pats = length_patterns(3, 2, 4) if q else length_patterns(3, 3, 5)
    for spec in SPECS:
        gb = bool(spec.get("groupby"))
        for lens in pats:
            if q and gb and sum(lens) > 3:
                continue
            n = sum(lens)
            name = "%s%s%s/lens=%s" % ("frame-" if spec.get("kind") == "frame2" else "", spec["op"],
                                       "/by-" + spec["groupby"] if gb else "",
                                       "-".join(map(str, lens)))
            obls.append({"name": name, "body": "body", "pre": "pre",
                         "shard": {"spec": spec, "lens": list(lens)},
                         "types": ["int"] * (2 * n if gb else n), "budget": B})
    # NaN inputs: a symbolic flag per row turns the value into NaN
    for spec in ([{"op": o} for o in ("sum", "count", "size", "mean")]
                 + [{"op": o, "kind": "frame", "groupby": "column"} for o in ("sum", "count", "mean")]):
        gb = bool(spec.get("groupby"))
        for lens in ([(1, 1, 1), (2, 0, 1), (0, 2, 1)] if q else length_patterns(3, 2, 4)):
            n = sum(lens)
            name = "nan/%s%s/lens=%s" % (spec["op"], "/by-" + spec["groupby"] if gb else "",
                                         "-".join(map(str, lens)))
            obls.append({"name": name, "body": "body", "pre": "pre",
                         "shard": {"spec": spec, "lens": list(lens), "nan": True},
                         "types": ["int"] * (2 * n if gb else n) + ["bool"] * n, "budget": B})
    for e in EXPRS:
        for lens in ([(2, 0, 1), (0, 2, 1), (1, 1, 1)] if q else length_patterns(3, 2, 4)):
            n = sum(lens)
            obls.append({"name": "expr/%s/lens=%s" % (e, "-".join(map(str, lens))), "body": "body_expr",
                         "pre": "pre_expr", "shard": {"expr": e, "lens": list(lens)},
                         "types": ["int"] * (2 * n), "budget": B})
    return obls


def pre_check(tier):
    from engine import model_validation
    return model_validation.run(200 if tier == "quick" else 1000)
