"""C07 - windowed aggregations equal pandas on exactly the rows inside the window.

Real code executed: diff_iloc, diff_loc, diff_align, window_accumulator,
windowed_groupby_accumulator, every on_old, Window.aggregate, WindowedGroupBy._accumulate
(+ the wrappers of C06) on model frames.  Symbolic: values (unbounded ints), group keys in
{0,1,2}, and for window(value=T) the timestamps (non-decreasing: symbolic gaps in [0,3]).
Sharded: aggregation, window size N / duration T, every batch-length pattern.
Oracle: one-shot aggregation over the last N rows / the rows with index > newest - T.
"""
from engine import dfrun as D
from engine.symutil import Verdict
from harness import dfcommon as DC
from harness.c06 import length_patterns, KEYDOM

META = {
    "bounds": {"quick": "<= 3 batches of <= 2 rows (total <= 4), N in {1,2}, T in {1,2} with symbolic non-decreasing integer "
                        "timestamps (gaps in [0,3]); sum/count/mean/var/size/value_counts, windowed groupby by column and by "
                        "streaming series (sum/count/mean/size/var)",
               "thorough": "<= 3 batches of <= 2 rows (total <= 4) plus the larger-batch patterns, N up to 3, T up to 3, all sizes for every aggregation"},
    "outside": ["IEEE rounding", "std checked as var", "NaN inputs", "non-monotone indices", "cudf"],
    "stubs": DC.STUBS,
    "assumptions": ["timestamps are non-decreasing (as the statement assumes)",
                    "window boundary: rows with index > newest - T (the one the code and the suite's own oracle use)"],
}


def pre(shard, *v):
    n = sum(shard["lens"])
    spec = shard["spec"]
    i = n
    if spec.get("groupby") or spec["op"] == "value_counts":
        for k in v[i:i + n]:
            if not (0 <= k <= KEYDOM):
                return False
        i += n
    if spec["op"] == "value_counts":
        for x in v[:n]:
            if not (0 <= x <= KEYDOM):
                return False
    if spec["window"][0] == "value":
        for g in v[i:i + n]:
            if not (0 <= g <= 3):
                return False
    return True


def verdict_for(kind, shard, v):
    spec = shard["spec"]
    lens = shard["lens"]
    n = sum(lens)
    xs = list(v[:n])
    i = n
    ks = None
    if spec.get("groupby") or spec["op"] == "value_counts":
        ks = list(v[i:i + n])
        i += n
    ts = None
    if spec["window"][0] == "value":
        ts, t = [], 10
        for g in v[i:i + n]:
            t = t + g
            ts.append(t)
    batches = DC.make_batches(lens, xs, ks, ts)
    vd = Verdict()
    name = "%s/window-%s%s" % (spec["op"], spec["window"][0],
                               "/groupby-" + spec["groupby"] if spec.get("groupby") else "")
    be, outs = DC.run_spec(kind, spec, batches)
    as_map = spec["op"] == "value_counts" or bool(spec.get("groupby"))
    seen = 0
    for k, out in enumerate(outs, start=1):
        seen += lens[k - 1]
        if out and isinstance(out[0], str) and out[0].startswith("RAISED"):
            if seen > 0:
                vd.add("raises-%s@%s" % (out[0][7:], name))
            continue
        if len(out) != 1:
            vd.add("not-one-result-per-batch@%s" % name)
            continue
        if seen == 0:
            continue
        exp = D.oracle(be, spec, batches, k)
        if not D.same(out[0], exp, as_map=as_map, ignore_zero=(spec["op"] == "value_counts")):
            vd.add("wrong-value@%s" % name)
    return vd.result()


def body(shard, *v):
    return DC.with_pandas_replay(lambda: verdict_for("model", shard, v),
                                 lambda: verdict_for("pandas", shard, v), DC.concrete(v))


def obligations(tier):
    q = tier == "quick"
    B = 400 if q else 2000
    obls = []
    pats = length_patterns(3, 2, 4)
    Ns = (1, 2) if q else (1, 2, 3)
    Ts = (1, 2) if q else (1, 2, 3)
    specs = []
    for N in Ns:
        for op in ("sum", "count", "mean", "var", "size", "value_counts"):
            specs.append({"op": op, "window": ("n", N)})
    for T in Ts:
        for op in ("sum", "count", "mean"):
            specs.append({"op": op, "window": ("value", T)})
    for g in ("column", "stream"):
        for op in ("sum", "count", "mean", "size", "var"):
            specs.append({"op": op, "kind": "frame", "groupby": g, "window": ("n", 2)})
        for op in ("sum", "count"):
            specs.append({"op": op, "kind": "frame", "groupby": g, "window": ("value", 2)})
    big = [(1, 2, 3), (2, 1, 3), (1, 1, 3), (1, 2, 4)] if q else [(1, 2, 3), (2, 1, 3), (1, 1, 3), (1, 2, 4), (2, 3, 4), (1, 3, 2, 4)]
    if q:
        # N=3 only with the "larger batch after smaller ones" patterns (several whole frames leave at once)
        specs += [{"op": "sum", "window": ("n", 3), "bigonly": True}, {"op": "count", "window": ("n", 3), "bigonly": True},
                  {"op": "sum", "kind": "frame", "groupby": "stream", "window": ("n", 3), "bigonly": True}]
    for spec in specs:
        gb = bool(spec.get("groupby"))
        if spec["window"][0] == "n" and spec["op"] in ("sum", "count") and (not gb or spec["groupby"] == "stream"):
            for lens in (big if not gb else big[:1]):
                n = sum(lens)
                nsym = n + (n if gb else 0)
                obls.append({"name": "%s/%s=%d%s/lens=%s" % (spec["op"], spec["window"][0], spec["window"][1],
                                                             "/by-" + spec["groupby"] if gb else "",
                                                             "-".join(map(str, lens))),
                             "body": "body", "pre": "pre", "shard": {"spec": spec, "lens": list(lens)},
                             "types": ["int"] * nsym, "budget": B})
        if spec.get("bigonly"):
            continue
        for lens in pats:
            n = sum(lens)
            if q and (gb or spec["window"][0] == "value" or spec["op"] in ("var", "value_counts")) and n > 3:
                continue
            w = spec["window"]
            if q and w[0] == "n" and w[1] == 3 and n < 3:
                continue
            nsym = n + (n if (gb or spec["op"] == "value_counts") else 0) + (n if w[0] == "value" else 0)
            name = "%s/%s=%d%s/lens=%s" % (spec["op"], w[0], w[1], "/by-" + spec["groupby"] if gb else "",
                                           "-".join(map(str, lens)))
            obls.append({"name": name, "body": "body", "pre": "pre",
                         "shard": {"spec": spec, "lens": list(lens)}, "types": ["int"] * nsym, "budget": B})
    return obls


def pre_check(tier):
    from engine import model_validation
    return model_validation.run(200 if tier == "quick" else 1000)
