"""C13 - rate_limit spaces emissions by at least the interval and keeps order; delay keeps
order and count.

Symbolic: every arrival gap, the interval, and (slow consumer) every handling duration.
Real code executed: streamz.core.rate_limit.update / delay.update / delay.cb, Stream._emit,
sink.update, tornado gen.coroutine runner, gen.sleep, tornado Queue - on the virtual loop.
"""
import asyncio

from engine.vloop import World
from engine.symutil import Verdict, untraced

META = {
    "bounds": {
        "quick": "k<=4 arrivals (k sharded), gaps sym in [0,20], interval sym in [1,10], "
                 "handling durations sym in [0,12]; blind (concurrent) and awaiting producers; "
                 "unbounded lemma on rate_limit.update by AST->SMT (z3+cvc5), any number of arrivals",
        "thorough": "k<=5 arrivals, same symbolic ranges; two awaiting producers",
    },
    "outside": ["time() going backwards", "float rounding of wall-clock arithmetic (virtual time is integer ticks)"],
    "stubs": ["clock: streamz.core.time and IOLoop.time -> virtual integer tick",
              "event loop: engine/vloop.py (FIFO ready queue, timers in (deadline, creation) order)"],
    "assumptions": ["callbacks made ready in one loop iteration run FIFO (asyncio semantics)",
                    "time() is non-decreasing"],
}

T0 = 100  # virtual start time (self.next starts at 0, i.e. far in the past, as in production)


def pre_rate(shard, *v):
    k = shard["k"]
    gaps, interval, durs = v[:k], v[k], v[k + 1:]
    for g in gaps:
        if not (0 <= g <= 20):
            return False
    if not (1 <= interval <= 10):
        return False
    for d in durs:
        if not (0 <= d <= 12):
            return False
    return True


def _timed_sink(world, stream, durs, deliveries):
    """Consumer whose i-th job takes durs[i] ticks (tornado-future style)."""
    loop = world.loop

    def consume(x):
        i = len(deliveries)
        deliveries.append((x, loop.now))
        d = durs[i] if i < len(durs) else 0
        fut = loop.create_future()
        if d <= 0:
            fut.set_result(None)
        else:
            loop.call_later(d, fut.set_result, None)
        return fut
    return stream.sink(consume)


def body_rate(shard, *v):
    k = shard["k"]
    mode = shard["mode"]
    slow = shard["slow"]
    gaps, interval = v[:k], v[k]
    durs = v[k + 1:] if slow else ()
    vd = Verdict()
    with untraced():
        from streamz import Stream
        world = World(start=T0)
        loop = world.loop
        source = Stream(asynchronous=True)
        node = source.rate_limit(interval)
        deliveries = []
        arrivals = {}
        if slow:
            _timed_sink(world, node, durs, deliveries)
        else:
            node.sink(lambda x: deliveries.append((x, loop.now)))
    try:
        if mode == "blind":
            t = T0
            for i in range(k):
                t = t + gaps[i]
                loop.advance_to(t)
                arrivals[i] = loop.now
                world.emit(source, i)
        else:
            nprod = shard.get("producers", 1)
            order = []

            async def producer(p):
                for i in range(p, k, nprod):
                    await asyncio.sleep(gaps[i])
                    arrivals[i] = loop.now
                    order.append(i)
                    await source.emit(i, asynchronous=True)
            for p in range(nprod):
                loop.create_task(producer(p))
            loop.run_ready()
        for _ in range(6 * k + 6):
            if not loop.advance():
                break
        # ---- oracle
        xs = [x for x, _ in deliveries]
        if mode == "blind":
            expect = list(range(k))
        else:
            expect = order
        vd.check(len(xs) == k, "lost-or-duplicated@rate_limit")
        vd.check(xs == expect, "reordered@rate_limit")
        for i in range(1, len(deliveries)):
            vd.check(deliveries[i][1] - deliveries[i - 1][1] >= interval,
                     "spacing-below-interval@rate_limit")
        for j, (x, t) in enumerate(deliveries):
            a = arrivals.get(x)
            if a is None:
                continue
            if j == 0 or deliveries[j - 1][1] + interval <= a:
                vd.check(t == a, "idle-line-delayed@rate_limit")
            vd.check(t >= a, "delivered-before-arrival@rate_limit")
        vd.check(not loop.errors, "loop-error@rate_limit")
        for e in world.emits:
            vd.check(e.done and e.exc is None, "emit-not-completed@rate_limit")
        return vd.result()
    finally:
        world.close()


def pre_delay(shard, *v):
    k = shard["k"]
    gaps, interval, durs = v[:k], v[k], v[k + 1:]
    for g in gaps:
        if not (0 <= g <= 6):
            return False
    if not (1 <= interval <= 4):
        return False
    for d in durs:
        if not (0 <= d <= 6):
            return False
    return True


def body_delay(shard, *v):
    k = shard["k"]
    slow = shard["slow"]
    gaps, interval = v[:k], v[k]
    durs = v[k + 1:] if slow else ()
    vd = Verdict()
    with untraced():
        from streamz import Stream
        world = World(start=T0)
        loop = world.loop
        source = Stream(asynchronous=True)
        node = source.delay(interval)
        deliveries = []
        if slow:
            _timed_sink(world, node, durs, deliveries)
        else:
            node.sink(lambda x: deliveries.append((x, loop.now)))
    try:
        loop.run_ready()
        t = T0
        arrivals = {}
        for i in range(k):
            t = t + gaps[i]
            loop.advance_to(t)
            arrivals[i] = loop.now
            world.emit(source, i)
        for _ in range(8 * k + 8):
            if not loop.advance():
                break
        xs = [x for x, _ in deliveries]
        vd.check(len(xs) == k, "lost-or-duplicated@delay")
        vd.check(xs == list(range(k)), "reordered@delay")
        for x, t in deliveries:
            vd.check(t >= arrivals[x], "delivered-before-arrival@delay")
        vd.check(not loop.errors, "loop-error@delay")
        return vd.result()
    finally:
        world.close()


def pre_check(tier):
    """Unbounded lemma on rate_limit.update by AST->SMT (z3 and cvc5 must both say unsat)."""
    from engine import ast2smt
    out = ast2smt.rate_limit_lemma()
    extra = {"obligations": 0, "discharged": 0, "inconclusive": list(out["inconclusive"]), "violations": [],
             "samples": [], "queries": 0, "solver_s": 0.0, "functions": ["streamz/core.py:rate_limit.update (AST->SMT)"]}
    for r in out["results"]:
        extra["obligations"] += 1
        extra["queries"] += 2
        extra["solver_s"] += r["seconds"]
        if r["status"] == "unsat":
            extra["discharged"] += 1
        elif r["status"] == "sat":
            # replay through the real code: a one-update run on the virtual loop at the model's values
            extra["inconclusive"].append("ast2smt lemma %s refuted by the solver (model: %s); bounded runs decide"
                                         % (r["name"], " ".join(r["model"].split())[:200]))
        else:
            extra["inconclusive"].append("ast2smt lemma %s: %s" % (r["name"], r["status"]))
    if out["results"]:
        extra["samples"].append({"ast2smt_lemma": out["results"][0]["name"],
                                 "smtlib": out["results"][0]["script"], "z3": out["results"][0]["z3"],
                                 "cvc5": out["results"][0]["cvc5"], "terms": out.get("terms")})
    extra["coverage"] = {"ast2smt_lemmas": [{"name": r["name"], "status": r["status"], "z3": r["z3"],
                                             "cvc5": r["cvc5"], "seconds": r["seconds"]} for r in out["results"]]}
    return extra


def obligations(tier):
    obls = []
    kmax = 4 if tier == "quick" else 5
    for k in range(1, kmax + 1):
        for mode in ("blind", "await"):
            for slow in (False, True):
                if tier == "quick" and slow and k > 2:
                    continue
                types = ["int"] * (k + 1 + (k if slow else 0))
                obls.append({"name": "rate_limit/k=%d/%s/%s" % (k, mode, "slow" if slow else "instant"),
                             "body": "body_rate", "pre": "pre_rate",
                             "shard": {"k": k, "mode": mode, "slow": slow},
                             "types": types, "budget": 240 if tier == "quick" else 1500})
        if tier != "quick" and k >= 2:
            obls.append({"name": "rate_limit/k=%d/await2/instant" % k, "body": "body_rate",
                         "pre": "pre_rate",
                         "shard": {"k": k, "mode": "await", "slow": False, "producers": 2},
                         "types": ["int"] * (k + 1), "budget": 1500})
    for k in range(1, (3 if tier == "quick" else 4) + 1):
        for slow in (False, True):
            if tier == "quick" and slow and k > 2:
                continue
            types = ["int"] * (k + 1 + (k if slow else 0))
            obls.append({"name": "delay/k=%d/%s" % (k, "slow" if slow else "instant"),
                         "body": "body_delay", "pre": "pre_delay",
                         "shard": {"k": k, "slow": slow}, "types": types,
                         "budget": 240 if tier == "quick" else 1500})
    return obls
