"""C18 - source lifecycle: one polling loop at a time, nothing emitted after stop.

Symbolic: the history - at every step one of {start, stop, advance the clock to the next
timer, complete the pending consumer job}.  The consumer is manual, so the polling loop
can be suspended in its sleep, in a back-pressured emit, or between items when start /
stop are called.  Real code executed: Source.start/stop/run, from_periodic._run,
from_iterable.run, from_textfile._run, Stream._emit, sink - on the virtual loop.
"""
from engine.vloop import World
from engine.symutil import Verdict, untraced
from harness.common import run_schedule, drain, Pruned

META = {
    "bounds": {"quick": "histories of <= 7 steps over {start, stop, advance, complete}; from_periodic, from_iterable "
                        "(one-shot iterator of 4 items), from_textfile (fake file, 4 lines); manual tornado-future and "
                        "native-coroutine consumers",
               "thorough": "histories of <= 9 steps, 6 items"},
    "outside": ["sources that override start/stop (kafka, tcp, http, websocket)", "several threads calling start/stop"],
    "stubs": ["event loop + clock: engine/vloop.py", "file object: in-memory fake with read()"],
    "assumptions": ["callbacks made ready in one loop iteration run FIFO (asyncio semantics)"],
}

ALLOWED = (2, 4, 5, 6, 9)


class FakeFile:
    def __init__(self, chunks):
        self.chunks = list(chunks)

    def read(self):
        if self.chunks:
            return self.chunks.pop(0)
        return ""

    def seek(self, *a):
        pass


def pre(shard, *choices):
    return True


def body(shard, *choices):
    with untraced():
        return _body(shard, *choices)


def _body(shard, *choices):
    from streamz import Stream
    vd = Verdict()
    kind = shard["kind"]
    nitems = shard.get("items", 4)
    world = World()
    loop = world.loop
    st = {"alive": 0, "max_alive": 0, "runs": 0, "cycles": [], "taken": [], "stop_epoch": 0,
          "calls": [], "stopped_since": None, "cycles_after_stop": 0}
    try:
        if kind == "from_periodic":
            counter = [0]

            def cb():
                counter[0] += 1
                return counter[0] - 1
            src = Stream.from_periodic(cb, poll_interval=2, asynchronous=True, loop=world.io)
        elif kind == "from_iterable":
            def gen():
                for i in range(nitems):
                    st["taken"].append((i, len(world.finished["k"])))
                    if src.stopped:
                        st["taken_while_stopped"] = True
                    yield i
            src = Stream.from_iterable(gen(), asynchronous=True, loop=world.io)
        else:
            f = FakeFile(["%d\n" % i for i in range(nitems)])
            src = Stream.from_textfile(f, poll_interval=2, asynchronous=True, loop=world.io)
        world.manual_sink(src, "k", native=shard.get("native", False))
        # instrument run() and _run() from outside (wrapping the bound methods)
        orig_run = src.run

        async def run_wrapper():
            st["alive"] += 1
            st["runs"] += 1
            st["max_alive"] = max(st["max_alive"], st["alive"])
            try:
                await orig_run()
            finally:
                st["alive"] -= 1
        src.run = run_wrapper
        if hasattr(src, "_run") and kind != "from_iterable":
            orig_cycle = src._run

            async def cycle_wrapper():
                st["cycles"].append(loop.now)
                if src.stopped or st["stopped_since"] is not None:
                    st["cycles_after_stop"] += 1
                await orig_cycle()
            src._run = cycle_wrapper

        fine = shard.get("fine", False)

        def settle():
            if not fine:
                loop.run_ready()

        def extra(c):
            if fine and c == 7:
                if not loop.ready and loop.next_deadline() is None:
                    return False
                loop.run_one_iteration()
                return True
            if c == 5:
                before = (src.stopped, st["runs"])
                was_started = not src.stopped
                st["stopped_since"] = None
                src.start()
                settle()
                if was_started and st["runs"] != before[1]:
                    vd.add("start-on-started-not-a-noop@%s" % kind)
                return True
            if c == 6:
                was_stopped = src.stopped
                src.stop()
                settle()
                if not was_stopped:
                    st["stopped_since"] = loop.now
                return True
            return False
        try:
            run_schedule(world, choices, [], extra=extra, allowed=ALLOWED + ((7,) if fine else ()), fine=fine)
            if fine:
                loop.run_ready()
        except Pruned:
            return vd.result()
        # ---- clauses over the whole history
        if st["max_alive"] > 1:
            vd.add("two-polling-loops@%s" % kind)
        got = list(world.delivered["k"])
        if kind == "from_textfile":
            got = [int(x) for x in got]
        for i in range(1, len(got)):
            if got[i] == got[i - 1]:
                vd.add("duplicate-item@%s" % kind)
            elif got[i] < got[i - 1]:
                vd.add("out-of-order@%s" % kind)
        if got and got != list(range(got[0], got[0] + len(got))):
            vd.add("item-skipped-or-repeated@%s" % kind)
        if got and got[0] != 0:
            vd.add("first-item-missing@%s" % kind)
        if st["cycles_after_stop"] > 0:
            vd.add("cycle-begins-after-stop@%s" % kind)
        if kind == "from_iterable":
            if st.get("taken_while_stopped"):
                vd.add("item-taken-while-stopped@from_iterable")
            for i, nfinished in st["taken"]:
                if nfinished < i:
                    vd.add("took-next-before-downstream-finished@from_iterable")
        if loop.errors:
            vd.add("loop-error@%s" % kind)
        return vd.result()
    finally:
        world.close()


def obligations(tier):
    q = tier == "quick"
    steps = 7 if q else 9
    obls = []
    for kind in ("from_periodic", "from_iterable", "from_textfile"):
        for native in (False, True):
            obls.append({"name": "%s/%s/steps=%d" % (kind, "native" if native else "future", steps),
                         "body": "body", "pre": "pre",
                         "shard": {"kind": kind, "native": native, "items": 4 if q else 6},
                         "types": ["int"] * steps, "budget": 400 if q else 2400})
    fsteps = 6 if q else 8
    for kind in ("from_iterable", "from_periodic"):
        obls.append({"name": "%s/fine/steps=%d" % (kind, fsteps), "body": "body", "pre": "pre",
                     "shard": {"kind": kind, "native": False, "items": 4, "fine": True},
                     "types": ["int"] * fsteps, "budget": 400 if q else 2400})
    return obls
