"""C16 - failures reach the emitter, keep node state intact, are never checkpointed.

The C01 pipelines (directly connected nodes only) with a *fault mask*: a symbolic bit per
user-function invocation decides whether that invocation raises.  Clauses:
  * the exception reaches the caller of emit (raised, or carried by the awaitable);
  * every node's later outputs equal the reference semantics in which the failing push
    was aborted at the raising node (so the raising node kept its state);
  * the raising node's state attributes are unchanged by the failing call;
  * the failed element's completion callback is never triggered.
Also the blocking emit path (loop in "another thread", cooperative model) in c03-style.
"""
import copy

from engine.symutil import Verdict, pick, pick_bool, untraced
from harness import syncpipe as SP
from harness import c01

META = {
    "bounds": {
        "quick": "units with user functions alone and chains of 2 core units, 3 elements, fault mask over the "
                 "first 6 user-function invocations (symbolic), values in [0,1] where inspected; every element "
                 "carries a reference counter; asynchronous-mode emit and plain (loop-less) emit",
        "thorough": "all chains of 2 (4 elements, mask 8), diamonds",
    },
    "outside": ["buffered / timed nodes between the failing node and the emitter (the statement excludes them)",
                "exceptions that are not subclasses of Exception"],
    "stubs": ["event loop: engine/vloop.py"],
    "assumptions": ["user functions fail before they have any side effect of their own"],
}

NMASK = 6


def pre(shard, *v):
    k = shard["k"]
    if not c01._vals_ok(v[:k], shard.get("small", True), shard.get("dom", 1)):
        return False
    return True


STATE_ATTRS = ("state", "_buffer", "_metadata_buffer", "metadata_buffer", "seen", "cache",
               "metadata_cache", "buffers", "last", "metadata", "missing", "lossless_buffer")


def snapshot(node):
    out = {}
    for a in STATE_ATTRS:
        if hasattr(node, a):
            v = getattr(node, a)
            try:
                if a == "seen" and not isinstance(v, (list, dict)):
                    v = dict(v)   # zict.LRU
                if a == "buffers":
                    v = [list(q) for q in v.values()]
                elif a == "missing":
                    v = len(v)
                else:
                    v = copy.deepcopy(v) if a not in ("_metadata_buffer", "metadata_buffer",
                                                      "metadata_cache", "metadata") else _shallow(v)
            except Exception:
                v = repr(v)
            out[a] = v
    return out


def _shallow(v):
    if isinstance(v, dict):
        return {k: list(x) if isinstance(x, list) else x for k, x in v.items()}
    try:
        return [list(x) if isinstance(x, list) else x for x in v]
    except TypeError:
        return v


def body(shard, *v):
    k = shard["k"]
    nm = shard.get("nmask", NMASK)
    vals = list(v[:k])
    mask = [pick_bool(b) for b in v[k:k + nm]]
    if shard.get("small", True):
        vals = [pick(x, 0, shard.get("dom", 1)) for x in vals]
    else:
        vals = list(range(len(vals)))
    with untraced():
        return _run(shard, vals, mask)


def _run(shard, vals, mask):
    vd = Verdict()
    spec = SP.build_spec(shard)
    changed = []

    def on_built(real):
        # wrap update() of every real node: the innermost wrapper that sees the exception
        # belongs to the node whose own user function raised
        for i, node in enumerate(real.nodes):
            if spec[i][0] == "source":
                continue
            orig = node.update

            def upd(x, who=None, metadata=None, node=node, orig=orig, i=i):
                before = snapshot(node)
                try:
                    return orig(x, who=who, metadata=metadata)
                except SP.Boom as exc:
                    if getattr(exc, "_raised_at", None) is None:
                        exc._raised_at = i
                        if snapshot(node) != before:
                            changed.append(i)
                    raise
            node.update = upd

    nmds = [1] * len(vals)
    obs = SP.run_both(shard, vals, nmds=nmds, mask=mask, with_ref=True, on_built=on_built)
    # 1. the exception reaches the caller of emit exactly when the reference says the push failed
    for i in range(len(vals)):
        r, e = obs.real_exc[i], obs.ref_exc[i]
        if (r is None) != (e is None):
            if e is not None:
                vd.add("exception-swallowed@emit")
            else:
                vd.add("unexpected-exception@emit")
        elif r is not None and not isinstance(r, SP.Boom):
            vd.add("wrong-exception@emit")
    # 2. later outputs as if the failing element had not been offered to the raising node
    real, ref = obs.real, obs.ref
    for i, (kind, _, _) in enumerate(spec):
        if real.recs[i] is None:
            continue
        rv = [x for x, _ in real.seen(i)]
        ev = [x for x, _ in ref.emitted[i]]
        if not SP.values_equal(rv, ev):
            vd.add("wrong-output-after-failure@%s" % kind)
            break
    # 3. state of the raising node unchanged by the failing call
    for i in changed:
        vd.add("state-changed-by-failing-call@%s" % spec[i][0])
    # 4. the failed element's callback is never triggered
    for i in range(len(vals)):
        if obs.ref_exc[i] is not None:
            for key in obs.callbacks:
                if key[0] == i:
                    vd.add("callback-for-failed-element")
    return vd.result()


def _obl(name, shard, k, budget, nmask=NMASK):
    shard = dict(shard)
    shard["k"] = k
    shard["nmask"] = nmask
    return {"name": name, "body": "body", "pre": "pre", "shard": shard,
            "types": ["int"] * k + ["bool"] * nmask, "budget": budget}


def has_user_fn(names):
    for n in names:
        p = SP.UNITS[n][1]
        for kk in SP.USER_FUNC_KEYS:
            if callable(p.get(kk)):
                return True
    return False


def obligations(tier):
    q = tier == "quick"
    B = 300 if q else 1500
    obls = []
    for mode in ("async", "plain"):
        for (n,) in SP.chains(1):
            if not has_user_fn([n]):
                continue
            if mode == "plain" and SP.UNITS[n][0] == "partition":
                continue   # partition needs an event loop: plain mode = background thread (see C03/C19)
            obls.append(_obl("A/%s/%s/k=3" % (mode, n),
                             {"template": "chain", "units": [n], "small": SP.inspects([n]), "dom": 1,
                              "mode": mode}, 3, B, nmask=4))
    units = SP.CORE if q else sorted(SP.UNITS)
    for ch in SP.chains(2, units):
        if not has_user_fn(ch) or "collect" in ch:
            continue
        obls.append(_obl("B/chain/%s/k=3" % "+".join(ch),
                         {"template": "chain", "units": list(ch), "small": SP.inspects(ch), "dom": 1},
                         3 if q else 4, B, nmask=NMASK if q else 8))
    if not q:
        for a, b in (("map", "filter"), ("acc", "map"), ("filter", "unique_key")):
            for j in sorted(SP.JOINS):
                obls.append(_obl("B/diamond/%s|%s->%s/k=3" % (a, b, j),
                                 {"template": "diamond", "a": a, "b": b, "join": j, "tail": "map",
                                  "small": True, "dom": 1}, 3, B, nmask=8))
    # a raising sink at the end of a chain
    for n in (["map"], ["acc"], ["partition2"], ["window2"], ["unique_key"]):
        obls.append(_obl("B/sink-raises/%s/k=3" % n[0],
                         {"template": "chain", "units": n + ["sink_fn"], "small": SP.inspects(n), "dom": 1},
                         3, B, nmask=NMASK))
    from harness import c16_df, c03_block
    obls.extend(c16_df.obligations(tier))
    # exception transport through the blocking emit (loop in another thread)
    obls.extend([o for o in c03_block.obligations(tier) if "/fail@" in o["name"]])
    return obls
