"""C03 / C16, threaded operation: the *blocking* emit (loop "in another thread").

source = Stream(loop=<the loop>) is not asynchronous, so emit() goes through sync(): it
blocks in threading.Event.wait() until the emission coroutine on the loop thread is done.
Under the cooperative thread model (engine/coop.py) the schedule decides what the loop
thread and the consumers do while the caller is blocked.  Clauses: when emit() returns,
every directly reachable consumer has finished that element; with buffer(n) the number of
returned emits minus elements handed on never exceeds n; a failing consumer's exception
is raised by the blocking emit; every emit eventually returns once consumers complete.
"""
from engine.vloop import World
from engine.symutil import Verdict, untraced, decide
from engine import coop


class ConsumerFailed(Exception):
    pass


class Prune(BaseException):
    """Unwinds a blocked emit when the schedule turns out not to be one."""


def pre(shard, *c):
    return True


def body(shard, *choices):
    with untraced():
        return _body(shard, *choices)


def _body(shard, *choices):
    try:
        return _body2(shard, *choices)
    except Prune:
        return ""


def _body2(shard, *choices):
    from streamz import Stream
    vd = Verdict()
    world = World()
    tname = shard["template"]
    n = shard.get("n", 1)
    pos = [0]
    fail_at = shard.get("fail_at")
    st = {"pruned": False}

    def next_choice():
        if pos[0] >= len(choices) or st.get("ended"):
            return None
        c = decide(choices[pos[0]], (2, 3, 4, 8, 9))
        pos[0] += 1
        if c is None:
            st["pruned"] = True        # outside the alphabet: not a schedule
            return None
        if c == 9:
            st["ended"] = True         # explicit end: canonical completion from here on
            return None
        return c
    def driver(ev):
        # the caller is blocked: the loop thread runs; then schedule-chosen external events
        if st["pruned"]:
            raise Prune()
        for _ in range(60):
            world.loop.run_ready()
            if ev.is_set():
                return
            c = next_choice()
            if st["pruned"]:
                raise Prune()
            pend = world.pending()
            if c is None:
                # schedule exhausted: canonical completion
                if pend:
                    world.complete(pend[0])
                elif not world.loop.advance():
                    raise Prune()      # nothing can ever set the event: covered by the wake clause below
                continue
            if c == 2:
                if not pend:
                    raise Prune()
                world.complete(pend[0])
            elif c == 3:
                if len(pend) < 2:
                    raise Prune()
                world.complete(pend[1])
            elif c == 4:
                if world.loop.next_deadline() is None:
                    raise Prune()
                world.loop.advance()
            else:
                pass
    saved = coop.install(world, driver)
    try:
        src = Stream(loop=world.io)
        direct = []
        bound = None
        if tname == "direct":
            world.manual_sink(src, "k")
            direct = [("k", lambda x: [x])]
        elif tname == "map-direct":
            world.manual_sink(src.map(lambda x: x + 1000), "k")
            direct = [("k", lambda x: [x + 1000])]
        elif tname == "two-sinks":
            world.manual_sink(src, "k")
            world.manual_sink(src.map(lambda x: x + 1000), "k2")
            direct = [("k", lambda x: [x]), ("k2", lambda x: [x + 1000])]
        elif tname == "flatten-direct":
            world.manual_sink(src.flatten(), "k")
            direct = [("k", lambda x: list(x))]
        elif tname == "rate_limit":
            world.manual_sink(src.rate_limit(2), "k")
            direct = [("k", lambda x: [x])]
        elif tname == "buffer":
            world.manual_sink(src.buffer(n), "k")
            bound = n
        world.loop.run_ready()
        items = shard.get("items", 3)
        returned = 0
        for i in range(items):
            x = (i * 10, i * 10 + 1) if tname == "flatten-direct" else i
            failing = fail_at is not None and i == fail_at
            if failing:
                # the consumer of this element fails: complete() with an exception
                orig_complete = world.complete

                def complete_fail(job, exc=None, orig=orig_complete):
                    mine = list(x) if isinstance(x, tuple) else [x, x + 1000]
                    orig(job, exc=ConsumerFailed("boom") if job.x in mine else None)
                world.complete = complete_fail
            try:
                src.emit(x)
                raised = None
            except ConsumerFailed as exc:
                raised = exc
            except RuntimeError as exc:
                vd.add("blocking-emit-RuntimeError@%s" % tname)
                return vd.result()
            if failing:
                world.complete = orig_complete
            if st["pruned"]:
                return ""
            returned += 1
            if failing:
                if raised is None and direct:
                    vd.add("exception-not-raised-by-blocking-emit@%s" % tname)
                continue
            if raised is not None:
                vd.add("unexpected-exception@%s" % tname)
            for cname, img in direct:
                for y in img(x):
                    if y not in world.finished[cname]:
                        vd.add("blocking-emit-returned-before-consumer@%s" % tname)
            if bound is not None:
                if returned - len(world.delivered["k"]) > bound:
                    vd.add("bound-exceeded@buffer(blocking)")
        if coop.ThreadRecorder.created:
            vd.add("thread-started@%s" % tname)
        return vd.result()
    finally:
        coop.uninstall(saved)
        world.close()


def obligations(tier):
    q = tier == "quick"
    steps = 6 if q else 8
    obls = []
    for t in ("direct", "map-direct", "two-sinks", "flatten-direct", "rate_limit"):
        for fail_at in (None, 1):
            obls.append({"name": "blocking/%s/%s/steps=%d" % (t, "fail@1" if fail_at is not None else "ok", steps),
                         "module": "harness.c03_block", "body": "body", "pre": "pre",
                         "shard": {"template": t, "items": 3, "fail_at": fail_at},
                         "types": ["int"] * steps, "budget": 400 if q else 2000})
    for n in (1, 2):
        obls.append({"name": "blocking/buffer/n=%d/steps=%d" % (n, steps), "module": "harness.c03_block",
                     "body": "body", "pre": "pre", "shard": {"template": "buffer", "n": n, "items": 4},
                     "types": ["int"] * steps, "budget": 400 if q else 2000})
    return obls
