"""Schedule-driven harness support shared by the event-loop properties.

A schedule is a fixed-length list of symbolic ints; step i picks one enabled external
action.  Encoding (canonical: no two encodings denote the same schedule):
    0,1   producer 0 / 1 emits its next element
    2,3   complete the oldest / second-oldest pending consumer job
    4     advance the clock to the next timer deadline and run what becomes ready
    5     property-specific action (flush, stop, ...)
    6     property-specific action
    9     end of the explicit schedule (all later steps must be 9 as well)
A disabled choice prunes the path (the same prefix followed by 9s is another path).
After the explicit steps the harness drains (completes consumers oldest-first, fires
timers) to reach the quiescent point at which end-to-end clauses are evaluated.
"""
from engine.symutil import pick, decide

STOP = 9


class Pruned(Exception):
    """The schedule names a disabled action: not a schedule (covered by a shorter one)."""


def pre_schedule(choices, allowed):
    """Precondition: every choice is allowed and 9s only at the end."""
    stopped = False
    for c in choices:
        ok = False
        for a in allowed:
            if c == a:
                ok = True
        if not ok:
            return False
        if stopped and c != STOP:
            return False
        if c == STOP:
            stopped = True
    return True


class Producer:
    def __init__(self, world, source, items, awaiting=True, metadata=None):
        self.world = world
        self.source = source
        self.items = list(items)
        self.awaiting = awaiting
        self.i = 0
        self.last = None
        self.metadata = metadata  # optional fn(item) -> metadata list

    def enabled(self):
        if self.i >= len(self.items):
            return False
        if self.awaiting and self.last is not None and not self.last.done:
            return False
        return True

    def step(self, run=True):
        x = self.items[self.i]
        self.i += 1
        md = self.metadata(x) if self.metadata else None
        self.last = self.world.emit(self.source, x, metadata=md, run=run)
        return self.last


def run_schedule(world, choices, producers, extra=None, after_step=None, allowed=tuple(range(10)),
                 fine=False):
    """Execute the explicit schedule.  Returns the number of steps executed.
    Raises Pruned on a disabled choice.
    fine=True: loop-iteration granularity - emissions and completions do not let the loop run;
    7 runs exactly one loop iteration, 8 runs the loop until nothing is ready."""
    n = 0
    for c in choices:
        c = decide(c, allowed)
        if c is None:
            raise Pruned()
        if c == STOP:
            break
        if c in (0, 1):
            if c >= len(producers) or not producers[c].enabled():
                raise Pruned()
            producers[c].step(run=not fine)
        elif c in (2, 3):
            p = world.pending()
            if len(p) <= c - 2:
                raise Pruned()
            if fine:
                p[c - 2].fut.set_result(None)
            else:
                world.complete(p[c - 2])
        elif c == 7 and fine:
            if not world.loop.ready and world.loop.next_deadline() is None:
                raise Pruned()
            world.loop.run_one_iteration()
        elif c == 8 and fine:
            if not world.loop.ready:
                raise Pruned()
            world.loop.run_ready()
        elif c == 4:
            if world.loop.next_deadline() is None:
                raise Pruned()
            world.loop.advance()
        else:
            if extra is None or not extra(c):
                raise Pruned()
        n += 1
        if after_step is not None:
            after_step(n)
    return n


def drain(world, producers=(), max_steps=80, timers=True, after_step=None, stop_when=None):
    """Canonical completion: let every producer finish, complete consumers oldest-first,
    fire timers.  Returns True when quiescent."""
    world.loop.run_ready()
    for _ in range(max_steps):
        if stop_when is not None and stop_when():
            return True
        progressed = False
        for p in producers:
            if p.enabled():
                p.step()
                progressed = True
                break
        if not progressed:
            pend = world.pending()
            if pend:
                world.complete(pend[0])
                progressed = True
        if not progressed and timers and world.loop.next_deadline() is not None:
            world.loop.advance()
            progressed = True
        if after_step is not None:
            after_step(-1)
        if not progressed:
            return True
    return False
