"""C04 - checkpoint safety: the completion signal never precedes completion.

World of C02/C03 with an instrumented (real) RefCounter on every input element.
Invariant after every step: a counter whose completion callback has been scheduled
(count reached zero) belongs to an element that has been *completely handled*: its image
has been delivered to every sink and every such sink job has finished.  Otherwise the
element was still buffered / waiting in a timing node / being computed / being handled,
and the violation is classified by (function that did the releasing, template, phase).
Also: never for an element whose processing raised.
"""
from engine.symutil import Verdict
from harness import asyncpipe as AP

META = {
    "bounds": {
        "quick": "schedules of <= 7 steps, <= 3 elements, every template of C02 that can hold data after update() "
                 "returns + plain sinks; 1 counter per element; failing consumer at a symbolic position",
        "thorough": "schedules of <= 8 steps, <= 4 elements, 2 counters per element",
    },
    "outside": ["Dask scatter/gather (C20)", "the same counter attached to two elements"],
    "stubs": ["event loop + clock: engine/vloop.py"],
    "assumptions": ["callbacks made ready in one loop iteration run FIFO (asyncio semantics)"],
}


def images(shard, r, x):
    """(consumer, image of x) for every sink."""
    t = shard["template"]
    sk = r.t.skeleton
    out = []
    for cname in r.t.sinks:
        if r.t.kind == "linear":
            y = sk([x])[0]
            if t == "two-sinks":
                y = x if cname == "k" else x + 1000
            if t == "buffer+direct" and cname == "k2":
                y = x
        else:
            y = x
        out.append((cname, y))
    return out


def _contains(batchy, container, y, zipped):
    for item in container:
        if batchy:
            if y in list(item):
                return True
        elif zipped:
            if y in item:
                return True
        elif item == y:
            return True
    return False


def phase(shard, r, x):
    """None if x is completely handled, else where it still is."""
    w = r.world
    zipped = r.t.kind == "zip2"
    for cname, y in images(shard, r, x):
        batchy = r.t.batched and cname == "k"
        if not _contains(batchy, w.delivered[cname], y, zipped):
            for j in w.pending("f"):
                if j.x == x:
                    return "computing"
            return "before-delivery"
        if not _contains(batchy, w.finished[cname], y, zipped):
            return "consumer-busy"
    return None


def invariants(shard, r, vd, seen):
    failed = set()
    for y in getattr(r, "failed", []):
        for m in (list(y) if isinstance(y, (tuple, list)) else [y]):
            if not isinstance(m, tuple):
                failed.add(m % 1000)
    for key, ref in r.refs.items():
        if key in seen or key[0] in failed:
            continue
        if ref.reached_zero():
            seen.add(key)
            ph = phase(shard, r, key[0])
            if ph is not None:
                who = "?"
                for ev in r.events:
                    if ev[0] == "release" and ev[2] == key and ev[4] <= 0:
                        who = ev[3]
                        break
                vd.add("early-release@%s/%s/%s" % (who, shard["template"], ph))


def body(shard, *choices):
    vd = Verdict()
    seen = set()

    def after_step(r, n):
        invariants(shard, r, vd, seen)
    r = AP.run(shard, choices, with_ref=True, nmd=shard.get("nmd", 1), after_step=after_step)
    if r.pruned:
        return vd.result()
    invariants(shard, r, vd, seen)
    for key, ref in r.refs.items():
        if ref.went_negative():
            vd.add("negative-count/%s" % shard["template"])
    # never for an element whose processing raised
    for y in getattr(r, "failed", []):
        members = list(y) if isinstance(y, (tuple, list)) else [y]
        for m in members:
            if isinstance(m, tuple):
                continue
            x = m % 1000
            for key, ref in r.refs.items():
                if key[0] == x and ref.reached_zero():
                    who = "?"
                    for ev in r.events:
                        if ev[0] == "release" and ev[2] == key and ev[4] <= 0:
                            who = ev[3]
                            break
                    vd.add("callback-for-failed-element@%s/%s" % (who, shard["template"]))
    return vd.result()


def pre(shard, *choices):
    return True


def templates(tier):
    q = tier == "quick"
    out = []
    items = 3 if q else 4
    for native in (False, True):
        for awaiting in (True, False):
            base = {"native": native, "awaiting": awaiting, "items": items, "nmd": 1 if q else 2}
            for tname in ("direct", "map-direct", "two-sinks", "slice-direct"):
                out.append(dict(base, template=tname))
            out.append(dict(base, template="rate_limit", timers=True, interval=2))
            out.append(dict(base, template="delay", timers=True, interval=2))
            out.append(dict(base, template="timed_window", timers=True, interval=2))
            out.append(dict(base, template="partition-timeout", n=2, timers=True, interval=2))
            for n in (1, 2):
                out.append(dict(base, template="buffer", n=n))
                out.append(dict(base, template="map_async", n=n, out_of_order=True))
            out.append(dict(base, template="map_async", n=1, slow_sink=True))
            out.append(dict(base, template="buffer+direct", n=1))
            if awaiting:
                for tname, kw in (("buffer", {"n": 1}), ("map_async", {"n": 1}), ("delay", {"timers": True}),
                                  ("rate_limit", {"timers": True}), ("partition-timeout", {"n": 2, "timers": True}),
                                  ("timed_window", {"timers": True}), ("direct", {})):
                    out.append(dict(base, template=tname, fail=True, **kw))
            if awaiting:
                out.append(dict(base, template="zip", n=2, items=2))
                out.append(dict(base, template="union", items=2))
                out.append(dict(base, template="buffer+delay", n=1, timers=True))
                out.append(dict(base, template="timed_window+buffer", n=1, timers=True))
                out.append(dict(base, template="map_async+partition-timeout", n=2, timers=True,
                                out_of_order=True))
    for tname, kw in (("buffer", {"n": 1}), ("timed_window", {"timers": True}), ("partition-timeout", {"n": 2, "timers": True}),
                      ("map_async", {"n": 1}), ("delay", {"timers": True}), ("rate_limit", {"timers": True})):
        out.append(dict({"native": False, "awaiting": False, "items": 3, "nmd": 1, "fine": True}, template=tname, **kw))
    return out


def obligations(tier):
    q = tier == "quick"
    steps = 7 if q else 8
    obls = []
    for sh in templates(tier):
        nm = "%s/n=%s/%s/%s/steps=%d" % (sh["template"], sh.get("n", "-"),
                                         "native" if sh["native"] else "future",
                                         "await" if sh["awaiting"] else "blind", steps)
        if sh.get("slow_sink"):
            nm += "/slow-sink"
        if sh.get("fail"):
            nm += "/failing-job"
        if sh.get("fine"):
            nm += "/fine"
        obls.append({"name": nm, "body": "body", "pre": "pre", "shard": sh,
                     "types": ["int"] * steps, "budget": 400 if q else 2400})
    return obls
