"""Pure-Python virtual asyncio event loop + World driver.

The *real* tornado coroutine runner, tornado.queues.Queue, tornado.locks.Condition,
asyncio.Future/Task/Queue/gather/sleep and the real streamz coroutines run on this loop
unmodified.  What is modelled: the clock (integer ticks, possibly symbolic) and the
order in which the outside world acts (the harness drives it step by step).

Assumption (stated in every evidence file that uses this loop): callbacks made ready in
one loop iteration run FIFO, and timers that are due are moved to the ready queue in
(deadline, creation) order at the start of an iteration - as asyncio does.
"""
import asyncio
import asyncio.events
import logging
import sys
from collections import deque


def _make_vtask():
    """A Task whose stepping logic is CPython's own pure-Python implementation
    (asyncio.tasks._PyTask, source re-read from the running interpreter) but which
    derives from the C asyncio.Future, so that tornado's isinstance(x, asyncio.Future)
    checks accept it, while its step remains an ordinary bound method that CrossHair can
    trace (the C Task's step wrapper cannot be traced)."""
    import inspect
    import textwrap
    import asyncio.tasks as T
    src = textwrap.dedent(inspect.getsource(T._PyTask))
    head = src.split(":", 1)[0]
    assert head.startswith("class Task("), head
    src = "class VTask(_CFuture):" + src[len(head) + 1:]
    ns = dict(T.__dict__)
    ns["_CFuture"] = asyncio.Future
    exec(compile(src, "<vtask>", "exec"), ns)
    return ns["VTask"]


_PyTask = _make_vtask()


class Crash(Exception):
    """The process under test dies here (raised by the loop driver, never by a callback)."""


class VHandle:
    __slots__ = ("cb", "args", "_cancelled", "when", "seq")

    def __init__(self, cb, args, when=None, seq=0):
        self.cb = cb
        self.args = args
        self._cancelled = False
        self.when = when
        self.seq = seq

    def cancel(self):
        self._cancelled = True

    def cancelled(self):
        return self._cancelled

    def _run(self):
        self.cb(*self.args)


def _task_of(handle):
    """The asyncio.Task a ready handle will step, or None."""
    cb = handle.cb
    t = getattr(cb, "__self__", None)
    if isinstance(t, (asyncio.Task, _PyTask)):
        return t
    return None


class VLoop(asyncio.AbstractEventLoop):
    def __init__(self, start=0):
        self.now = start
        self.ready = deque()
        self.timers = []
        self.seq = 0
        self.errors = []
        self._closed = False
        self.ncallbacks = 0
        self.spinning = False
        self._task_factory = None
        self.crash_check = None     # callable(ncallbacks) -> bool : die before the next callback?
        self.in_callback = 0        # > 0 while a loop callback runs ("the loop thread")

    # ---- asyncio API used by tornado / asyncio / streamz -------------------
    def time(self):
        return self.now

    def call_soon(self, callback, *args, context=None):
        h = VHandle(callback, args)
        self.ready.append(h)
        return h

    call_soon_threadsafe = call_soon

    def call_later(self, delay, callback, *args, context=None):
        return self.call_at(self.now + delay, callback, *args)

    def call_at(self, when, callback, *args, context=None):
        self.seq += 1
        h = VHandle(callback, args, when=when, seq=self.seq)
        self.timers.append(h)
        return h

    def create_future(self):
        return asyncio.Future(loop=self)

    def create_task(self, coro, *, name=None, context=None):
        # pure-Python Task: its step is an ordinary bound method, so CrossHair traces it
        return _PyTask(coro, loop=self)

    def is_running(self):
        return True

    def is_closed(self):
        return self._closed

    def close(self):
        self._closed = True

    def get_debug(self):
        return False

    def set_debug(self, enabled):
        pass

    def default_exception_handler(self, context):
        self.errors.append(context)

    def call_exception_handler(self, context):
        self.errors.append(context)

    def get_exception_handler(self):
        return None

    def _timer_handle_cancelled(self, handle):
        pass

    def run_in_executor(self, executor, func, *args):
        raise NotImplementedError("no executors on the virtual loop")

    def add_signal_handler(self, *a):
        raise NotImplementedError

    def stop(self):
        pass

    # ---- driver primitives --------------------------------------------------
    def live_timers(self):
        self.timers = [h for h in self.timers if not h._cancelled]
        return self.timers

    def _move_due(self):
        due = []
        rest = []
        for h in self.live_timers():
            if h.when <= self.now:
                due.append(h)
            else:
                rest.append(h)
        if due:
            self.timers = rest
            due.sort(key=lambda h: (h.when, h.seq)) if len(due) > 1 else None
            self.ready.extend(due)

    def run_ready(self, cap=4000):
        """Run loop iterations until nothing is ready (or only sleep(0)-spinners are)."""
        prev_sig = None
        same = 0
        self.spinning = False
        while True:
            self._move_due()
            n = len(self.ready)
            if n == 0:
                return
            sig = []
            only_tasks = True
            for h in self.ready:
                if h._cancelled:
                    continue
                t = _task_of(h)
                if t is None:
                    only_tasks = False
                    break
                sig.append(id(t))
            if only_tasks and sig:
                if sig == prev_sig:
                    same += 1
                    if same >= 2:
                        self.spinning = True
                        return
                else:
                    same = 0
                prev_sig = sig
            else:
                prev_sig = None
                same = 0
            for _ in range(n):
                h = self.ready.popleft()
                if h._cancelled:
                    continue
                if self.crash_check is not None and self.crash_check(self.ncallbacks):
                    self.ready.appendleft(h)
                    raise Crash()
                self.ncallbacks += 1
                if self.ncallbacks > cap:
                    raise RuntimeError("virtual loop callback cap exceeded")
                self.in_callback += 1
                try:
                    h._run()
                except Exception as exc:  # asyncio logs and goes on
                    self.errors.append({"exception": exc, "handle": h})
                finally:
                    self.in_callback -= 1

    def run_one_iteration(self):
        """Exactly one loop iteration (asyncio's _run_once): move due timers, run the
        callbacks that were ready at the start - not the ones they schedule."""
        self._move_due()
        n = len(self.ready)
        for _ in range(n):
            h = self.ready.popleft()
            if h._cancelled:
                continue
            self.ncallbacks += 1
            self.in_callback += 1
            try:
                h._run()
            except Exception as exc:
                self.errors.append({"exception": exc, "handle": h})
            finally:
                self.in_callback -= 1
        return n

    def next_deadline(self):
        ts = self.live_timers()
        if not ts:
            return None
        best = ts[0].when
        for h in ts[1:]:
            if h.when < best:
                best = h.when
        return best

    def advance(self):
        """Jump to the earliest timer deadline and run everything that becomes ready.
        Returns False when there is no timer."""
        d = self.next_deadline()
        if d is None:
            return False
        if d > self.now:
            self.now = d
        self.run_ready()
        return True

    def advance_to(self, t, inclusive=True, run=True):
        """Fire every timer due before t (and, if inclusive, at t) in deadline order, then
        set the clock to t.  With inclusive=False timers due exactly at t stay pending so
        that the caller can act first at the same instant (same-instant ordering is not
        specified by asyncio)."""
        while True:
            d = self.next_deadline()
            if d is None or d > t or (not inclusive and d == t):
                break
            if d > self.now:
                self.now = d
            self.run_ready()
        if t > self.now:
            self.now = t
        if inclusive and run:
            self.run_ready()


_installed = []


def install(start=0):
    """Create a fresh virtual loop and make it *the* loop for asyncio, tornado and streamz."""
    import tornado.ioloop
    import streamz.core
    import streamz.sinks
    uninstall()
    logging.disable(logging.CRITICAL)
    loop = VLoop(start)
    asyncio.events._set_running_loop(None)
    asyncio.set_event_loop(loop)
    asyncio.events._set_running_loop(loop)
    # drop stale tornado wrappers (closed virtual loops of earlier paths)
    m = tornado.ioloop.IOLoop._ioloop_for_asyncio
    for k in list(m):
        if isinstance(k, VLoop):
            del m[k]
    io = tornado.ioloop.IOLoop.current()
    io.time = loop.time               # clock stub 1: tornado's IOLoop.time
    streamz.core.time = loop.time     # clock stub 2: `from time import time` in streamz.core
    streamz.sinks._global_sinks.clear()
    del streamz.core._io_loops[:]
    _installed.append(loop)
    loop.io = io
    return loop


def uninstall():
    import time as _time
    import streamz.core
    while _installed:
        loop = _installed.pop()
        loop.close()
    asyncio.events._set_running_loop(None)
    streamz.core.time = _time.time
    ts = streamz.core.thread_state
    if hasattr(ts, "asynchronous"):
        try:
            del ts.asynchronous
        except AttributeError:
            pass


class Job:
    __slots__ = ("consumer", "x", "fut", "done", "metadata")

    def __init__(self, consumer, x, fut, metadata=None):
        self.consumer = consumer
        self.x = x
        self.fut = fut
        self.done = False
        self.metadata = metadata


class Emit:
    __slots__ = ("x", "awaitable", "done", "exc", "t_called", "t_done", "src", "jobs_started")

    def __init__(self, x, src):
        self.x = x
        self.src = src
        self.awaitable = None
        self.done = False
        self.exc = None
        self.t_called = None
        self.t_done = None
        self.jobs_started = []


class World:
    """Event loop + event log + manual consumers + producers."""

    def __init__(self, start=0):
        self.loop = install(start)
        self.io = self.loop.io
        self.log = []          # (kind, time, payload...)
        self.jobs = []         # all consumer jobs in start order
        self.emits = []
        self.delivered = {}    # consumer name -> list of x in delivery order
        self.finished = {}     # consumer name -> list of x whose handling finished

    # -- consumers -------------------------------------------------------------
    def manual_sink(self, stream, name="k", native=False):
        """A sink that takes as long as the schedule says: returns a pending future
        (tornado style) or is a native coroutine awaiting one."""
        self.delivered.setdefault(name, [])
        self.finished.setdefault(name, [])
        world = self

        def start(x):
            if isinstance(x, list):
                x = list(x)        # what the consumer sees *now* (a batch may be mutated later)
            fut = world.loop.create_future()
            job = Job(name, x, fut)
            world.jobs.append(job)
            world.delivered[name].append(x)
            world.log.append(("consumer-started", world.loop.now, name, x))
            return job

        if native:
            async def consume(x):
                job = start(x)
                await job.fut
                world._finish(job)
        else:
            def consume(x):
                job = start(x)
                job.fut.add_done_callback(lambda f, job=job: world._finish(job))
                return job.fut
        return stream.sink(consume)

    def instant_sink(self, stream, name="k"):
        self.delivered.setdefault(name, [])
        self.finished.setdefault(name, [])
        world = self

        def consume(x):
            if isinstance(x, list):
                x = list(x)
            world.delivered[name].append(x)
            world.finished[name].append(x)
            world.log.append(("consumer-started", world.loop.now, name, x))
            world.log.append(("consumer-finished", world.loop.now, name, x))
        return stream.sink(consume)

    def manual_func(self, name="f", native=True, fn=None):
        """A user coroutine function for map_async: result is delivered when completed."""
        world = self
        self.delivered.setdefault(name, [])
        self.finished.setdefault(name, [])

        async def func(x):
            fut = world.loop.create_future()
            job = Job(name, x, fut)
            world.jobs.append(job)
            world.delivered[name].append(x)
            world.log.append(("consumer-started", world.loop.now, name, x))
            await fut
            world._finish(job)
            return fn(x) if fn else x
        return func

    def _finish(self, job):
        if not job.done:
            job.done = True
            self.finished[job.consumer].append(job.x)
            self.log.append(("consumer-finished", self.loop.now, job.consumer, job.x))

    def pending(self, consumer=None):
        return [j for j in self.jobs
                if not j.fut.done() and (consumer is None or j.consumer == consumer)]

    def complete(self, job, exc=None):
        if exc is not None:
            job.fut.set_exception(exc)
        else:
            job.fut.set_result(None)
        self.loop.run_ready()

    # -- producers -----------------------------------------------------------------
    def emit(self, source, x, metadata=None, run=True):
        e = Emit(x, source)
        e.t_called = self.loop.now
        self.emits.append(e)
        self.log.append(("emit-called", self.loop.now, x))
        njobs = len(self.jobs)
        try:
            aw = source.emit(x, asynchronous=True, metadata=metadata)
        except Exception as exc:
            e.exc = exc
            e.done = True
            e.t_done = self.loop.now
            self.log.append(("emit-raised", self.loop.now, x))
            if run:
                self.loop.run_ready()
            return e
        e.jobs_started = self.jobs[njobs:]
        e.awaitable = aw
        if aw is None:
            e.done = True
            e.t_done = self.loop.now
        else:
            world = self

            def _done(f, e=e):
                e.done = True
                e.t_done = world.loop.now
                try:
                    e.exc = f.exception()
                except BaseException as exc:  # cancelled
                    e.exc = exc
                world.log.append(("emit-completed", world.loop.now, e.x))
            aw.add_done_callback(_done)
        if run:
            self.loop.run_ready()
        return e

    # -- draining --------------------------------------------------------------------
    def drain(self, max_steps=60, complete=True, timers=True, until=None):
        """Complete consumers (oldest first) and fire timers until nothing is left to do
        (bounded).  `until(world)` may stop early."""
        self.loop.run_ready()
        for _ in range(max_steps):
            if until is not None and until(self):
                return True
            p = self.pending() if complete else []
            if p:
                self.complete(p[0])
                continue
            if timers and self.loop.advance():
                continue
            return True
        return False

    def close(self):
        uninstall()
