"""In-memory contract model of the confluent_kafka client API used by streamz
(confluent_kafka is not installed in this sandbox; streamz' Kafka code has zero executed
coverage in its own suite).  Contract taken from the confluent-kafka-python docs:

  Consumer(conf)                      group = conf['group.id']
    .poll(timeout)                    next message of the assignment or None
    .assign([TopicPartition])         start reading partition at tp.offset
    .get_watermark_offsets(tp, ...)   (low, high): high = offset of the next message
    .committed([tp...], timeout)      tp.offset = group's committed offset or OFFSET_INVALID
    .commit(offsets=[tp], asynchronous)  store the group's offset for the partition
    .list_topics(topic)               metadata.topics[topic].partitions -> dict
    .close() / .subscribe() / .unsubscribe()
  TopicPartition(topic, partition=-1, offset=OFFSET_INVALID)
  KafkaException

One Broker instance (module global, survives a 'crash' of the process under test) holds,
per partition: low watermark, the messages (offset = index), the committed offset per
group and a log of every commit and the event number at which it was applied.
"""
OFFSET_INVALID = -1001


class KafkaException(Exception):
    pass


class KafkaError(Exception):
    pass


class TopicPartition:
    def __init__(self, topic, partition=-1, offset=OFFSET_INVALID):
        self.topic = topic
        self.partition = partition
        self.offset = offset

    def __repr__(self):
        return "TP(%s,%s,%s)" % (self.topic, self.partition, self.offset)


class Message:
    def __init__(self, topic, partition, offset, key, value):
        self._t, self._p, self._o, self._k, self._v = topic, partition, offset, key, value

    def value(self):
        return self._v

    def key(self):
        return self._k

    def error(self):
        return None

    def offset(self):
        return self._o

    def partition(self):
        return self._p

    def topic(self):
        return self._t


class Partition:
    """Messages are not stored: the message at offset o of partition p has key ('k', p, o)
    and value ('v', p, o); only the watermarks are state (ints, possibly symbolic)."""

    def __init__(self, index):
        self.index = index
        self.low = 0
        self.high = 0           # offset of the next message to be produced
        self.committed = {}     # group -> offset

    def message(self, o):
        return (("k", self.index, o), ("v", self.index, o))


class Broker:
    def __init__(self):
        self.topics = {}
        self.commit_log = []    # (group, partition, offset, tick)
        self.calls = []         # API call log
        self.clock = lambda: 0
        self.consumers = []

    def create(self, topic, nparts):
        self.topics[topic] = [Partition(i) for i in range(nparts)]

    def add_partition(self, topic):
        self.topics[topic].append(Partition(len(self.topics[topic])))

    def produce(self, topic, partition, n=1):
        p = self.topics[topic][partition]
        p.high = p.high + n


BROKER = Broker()


def reset_broker():
    global BROKER
    BROKER = Broker()
    return BROKER


class _TopicMeta:
    def __init__(self, n):
        self.partitions = {i: None for i in range(n)}


class _ClusterMeta:
    def __init__(self, topics):
        self.topics = topics


class Consumer:
    def __init__(self, conf):
        self.conf = dict(conf)
        self.group = conf.get("group.id", "default")
        self.assignment = []
        self.positions = {}
        self.closed = False
        BROKER.consumers.append(self)
        BROKER.calls.append(("Consumer", self.group, conf.get("enable.auto.commit")))

    def subscribe(self, topics):
        pass

    def unsubscribe(self):
        pass

    def assign(self, tps):
        self.assignment = list(tps)
        for tp in tps:
            self.positions[(tp.topic, tp.partition)] = tp.offset
        BROKER.calls.append(("assign", [(tp.topic, tp.partition, tp.offset) for tp in tps]))

    def poll(self, timeout=None):
        for tp in self.assignment:
            key = (tp.topic, tp.partition)
            pos = self.positions[key]
            part = BROKER.topics[tp.topic][tp.partition]
            if pos < part.low:
                pos = part.low
            if pos < part.high:
                k, v = part.message(pos)
                self.positions[key] = pos + 1
                return Message(tp.topic, tp.partition, pos, k, v)
        return None

    def get_watermark_offsets(self, tp, timeout=None, cached=False):
        parts = BROKER.topics.get(tp.topic)
        if parts is None or tp.partition >= len(parts):
            raise KafkaException("unknown partition")
        p = parts[tp.partition]
        return (p.low, p.high)

    def committed(self, tps, timeout=None):
        out = []
        for tp in tps:
            p = BROKER.topics[tp.topic][tp.partition]
            out.append(TopicPartition(tp.topic, tp.partition, p.committed.get(self.group, OFFSET_INVALID)))
        return out

    def commit(self, message=None, offsets=None, asynchronous=True):
        for tp in offsets or []:
            p = BROKER.topics[tp.topic][tp.partition]
            p.committed[self.group] = tp.offset
            BROKER.commit_log.append((self.group, tp.partition, tp.offset, BROKER.clock()))
        BROKER.calls.append(("commit", [(tp.partition, tp.offset) for tp in offsets or []]))

    def list_topics(self, topic=None, timeout=-1):
        return _ClusterMeta({t: _TopicMeta(len(ps)) for t, ps in BROKER.topics.items()})

    def close(self):
        self.closed = True


class Producer:
    def __init__(self, conf):
        raise NotImplementedError("producer side is not modelled")
