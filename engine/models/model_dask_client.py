"""Contract model of the distributed.Client API used by streamz/dask.py.

  submit(fn, *args, **kw) -> Future (synchronously); the task runs - and its value
      becomes available - when the *schedule* says so, but only after every future among
      its arguments (nested in tuples/lists too) has finished;
  scatter([x], asynchronous=True, hash=False) -> awaitable of [Future]  (completes later)
  gather(obj, asynchronous=True) -> awaitable of obj with every future replaced by its value
      (recursing through tuples/lists like the real one); completes later, and only when
      all those futures have finished.
Which pending task / scatter / gather finishes next is chosen by the harness.
"""


class MFuture:
    def __init__(self, client, fn=None, args=(), kwargs=None, value=None, done=False):
        self.client = client
        self.fn, self.args, self.kwargs = fn, args, kwargs or {}
        self.value = value
        self.done = done
        self.key = "f%d" % len(client.all)
        client.all.append(self)

    def __repr__(self):
        return "<MFuture %s %s>" % (self.key, "finished" if self.done else "pending")


def _futures_in(obj):
    if isinstance(obj, MFuture):
        return [obj]
    if isinstance(obj, (tuple, list)):
        out = []
        for o in obj:
            out.extend(_futures_in(o))
        return out
    if isinstance(obj, dict):
        out = []
        for o in obj.values():
            out.extend(_futures_in(o))
        return out
    return []


def _resolve(obj):
    if isinstance(obj, MFuture):
        return obj.value
    if isinstance(obj, tuple):
        return tuple(_resolve(o) for o in obj)
    if isinstance(obj, list):
        return [_resolve(o) for o in obj]
    if isinstance(obj, dict):
        return {k: _resolve(v) for k, v in obj.items()}
    return obj


class ModelClient:
    def __init__(self, world):
        self.world = world
        self.loop = world.io
        self.all = []
        self.tasks = []       # submitted, not yet run
        self.scatters = []    # (tornado future, data)
        self.gathers = []     # (tornado future, obj)
        self.log = []

    # ---- API used by streamz/dask.py
    def submit(self, fn, *args, **kwargs):
        f = MFuture(self, fn, args, kwargs)
        self.tasks.append(f)
        self.log.append(("submit", f.key))
        return f

    def scatter(self, data, asynchronous=True, hash=False, **kw):
        fut = self.world.loop.create_future()
        self.scatters.append((fut, data))
        return fut

    def gather(self, obj, asynchronous=True, **kw):
        fut = self.world.loop.create_future()
        self.gathers.append((fut, obj))
        return fut

    # ---- driven by the schedule
    def runnable(self):
        return [t for t in self.tasks
                if all(d.done for d in _futures_in(t.args) + _futures_in(t.kwargs))]

    def run_task(self, t):
        self.tasks.remove(t)
        t.value = t.fn(*_resolve(t.args), **_resolve(t.kwargs))
        t.done = True
        self.log.append(("ran", t.key))

    def finish_scatter(self, i=0):
        fut, data = self.scatters.pop(i)
        fut.set_result([MFuture(self, value=x, done=True) for x in data])
        self.world.loop.run_ready()

    def ready_gathers(self):
        return [g for g in self.gathers if all(d.done for d in _futures_in(g[1]))]

    def finish_gather(self, g):
        self.gathers.remove(g)
        g[0].set_result(_resolve(g[1]))
        self.world.loop.run_ready()

    def idle(self):
        return not (self.tasks or self.scatters or self.gathers)
