"""Obligation scheduler + CrossHair driver + replay + evidence writer.

An obligation = (harness body, concrete shard parameters, types of the symbolic
parameters, CPU budget).  For each obligation a contracted entry function is generated
whose only job is to call the un-contracted body; CrossHair explores the path tree of
that execution of the real streamz code, z3 decides every branch and the final
assertion `verdict in ALLOWED`.

  CONFIRMED  path tree exhausted, assertion holds on every path (all values in bounds)
  REFUTED    z3 model -> replayed concretely (without CrossHair) before it is reported
  UNKNOWN    budget / solver unknown / unsupported path: inconclusive, never success
"""
import ast
import collections
import hashlib
import importlib
import json
import linecache
import multiprocessing as mp
import os
import re
import signal
import sys
import time
import traceback

VERIF = os.path.dirname(os.path.dirname(os.path.abspath(__file__)))
REPO = os.environ.get("VERIF_REPO", "/repo")

EXIT_OK, EXIT_VIOLATION, EXIT_INCONCLUSIVE, EXIT_HARNESS = 0, 1, 2, 3
THOROUGH_AS_QUICK = {"C12", "C13", "C15", "C16", "C17"}

_entry_counter = [0]


# --------------------------------------------------------------------------- worker side
class SolverStats:
    def __init__(self):
        self.queries = 0
        self.seconds = 0.0
        self.installed = False

    def install(self):
        if self.installed:
            return
        import z3
        orig = z3.Solver.check
        stats = self

        def check(solver, *a, **k):
            t = time.perf_counter()
            try:
                return orig(solver, *a, **k)
            finally:
                stats.queries += 1
                stats.seconds += time.perf_counter() - t
        z3.Solver.check = check
        self.installed = True

    def snapshot(self):
        return self.queries, self.seconds


SOLVER = SolverStats()


def make_entry(types, pre, post, run):
    """Generate the contracted entry function (the only function with a contract)."""
    import typing
    _entry_counter[0] += 1
    names = ["v%d" % i for i in range(len(types))]
    params = ", ".join("%s: %s" % (n, t) for n, t in zip(names, types))
    args = ", ".join(names)
    fname = "<verif-entry-%d-%d>" % (os.getpid(), _entry_counter[0])
    src = (
        "def entry(%s) -> str:\n"
        "    '''\n"
        "    pre: _PRE(%s)\n"
        "    post: _POST(__return__)\n"
        "    '''\n"
        "    return _RUN(%s)\n" % (params, args, args)
    )
    import types as _types
    modname = "verif_entry_%d" % _entry_counter[0]
    m = _types.ModuleType(modname)
    m.__file__ = fname
    g = m.__dict__
    g.update({"_PRE": pre, "_POST": post, "_RUN": run, "List": typing.List,
              "Tuple": typing.Tuple})
    sys.modules[modname] = m
    linecache.cache[fname] = (len(src), None, src.splitlines(True), fname)
    exec(compile(src, fname, "exec"), g)
    return g["entry"]


_CEX_RE = re.compile(r"when calling entry\((.*)\)(?: \(which returns|$)", re.S)


def parse_cex(message, ntypes):
    """Extract the model's arguments from CrossHair's message text."""
    m = re.search(r"when calling entry\((.*)", message, re.S)
    if not m:
        return None
    text = m.group(1)
    # cut at the matching close paren
    depth = 1
    out = []
    for ch in text:
        if ch in "([{":
            depth += 1
        elif ch in ")]}":
            depth -= 1
            if depth == 0:
                break
        out.append(ch)
    call = "f(" + "".join(out) + ")"
    try:
        node = ast.parse(call, mode="eval").body
        args = [ast.literal_eval(a) for a in node.args]
        kw = {k.arg: ast.literal_eval(k.value) for k in node.keywords}
        for i in range(len(args), ntypes):
            args.append(kw["v%d" % i])
        return args
    except Exception:
        return None


def crosshair_run(entry, budget, per_path):
    from crosshair.core_and_libs import analyze_function, run_checkables
    from crosshair.options import AnalysisOptionSet, AnalysisKind
    stats = collections.Counter()
    opts = AnalysisOptionSet(
        per_condition_timeout=float(budget),
        per_path_timeout=float(per_path),
        analysis_kind=[AnalysisKind.PEP316],
        report_all=True,
        max_uninteresting_iterations=0,
        stats=stats,
    )
    q0, s0 = SOLVER.snapshot()
    t0 = time.perf_counter()
    checkables = analyze_function(entry, opts)
    msgs = run_checkables(checkables)
    wall = time.perf_counter() - t0
    q1, s1 = SOLVER.snapshot()
    status = "UNKNOWN"
    text = ""
    for m in msgs:
        name = m.state.name
        if name == "CONFIRMED":
            status = "CONFIRMED"
        elif name in ("POST_FAIL", "EXEC_ERR", "POST_ERR", "PRE_INVALID"):
            status = "REFUTED"
            text = m.message
            break
        elif name == "PRE_UNSAT":
            status = "PRE_UNSAT"
            text = m.message
        elif name == "SYNTAX_ERR":
            status = "HARNESS_ERROR"
            text = m.message
            break
        else:
            status = "UNKNOWN"
            text = m.message
    if not msgs:
        status = "HARNESS_ERROR"
        text = "no conditions found"
    return {"status": status, "message": text, "paths": int(stats.get("num_paths", 0)),
            "queries": q1 - q0, "solver_s": s1 - s0, "wall_s": wall}


def concrete_run(run, args, collect_functions=False):
    """Execute the body on concrete values, outside CrossHair."""
    funcs = set()
    if collect_functions:
        prefix = os.path.join(REPO, "streamz")

        def prof(frame, event, arg):
            if event == "call":
                co = frame.f_code
                if co.co_filename.startswith(prefix):
                    funcs.add("%s:%s" % (os.path.relpath(co.co_filename, REPO),
                                         getattr(co, "co_qualname", co.co_name)))
        sys.setprofile(prof)
    try:
        try:
            verdict = run(*args)
        finally:
            if collect_functions:
                sys.setprofile(None)
    except Exception as exc:
        tb = traceback.extract_tb(sys.exc_info()[2])
        where = ""
        for fr in reversed(tb):
            if "/streamz/" in fr.filename or "/harness/" in fr.filename:
                where = "%s:%s" % (os.path.basename(fr.filename), fr.name)
                break
        verdict = "exception:%s@%s" % (type(exc).__name__, where)
    return verdict, sorted(funcs)


def run_obligation(task):
    """Runs in a worker process."""
    from engine.symutil import parse_verdict
    SOLVER.install()
    obl = task["obl"]
    mod = importlib.import_module(obl.get("module", task["module"]))
    body = getattr(mod, obl["body"])
    shard = obl.get("shard", {})
    types = obl["types"]
    pre_fn = getattr(mod, obl["pre"]) if obl.get("pre") else None
    budget = obl.get("budget", 60) * float(os.environ.get("VERIF_BUDGET_SCALE", task.get("scale", "3")))
    per_path = obl.get("per_path", 30)
    known = set(task.get("known", []))
    counters = {"completed": 0}

    def RUN(*a):
        r = body(shard, *a)
        counters["completed"] += 1
        return r

    def PRE(*a):
        return True if pre_fn is None else pre_fn(shard, *a)

    res = {"name": obl["name"], "shard": shard, "types": types, "status": None,
           "paths": 0, "queries": 0, "solver_s": 0.0, "wall_s": 0.0,
           "violations": [], "known_witnesses": [], "witness": None, "functions": [],
           "notes": [], "replays": 0, "budget": budget}
    t_start = time.perf_counter()

    def acc(r):
        res["paths"] += r["paths"]
        res["queries"] += r["queries"]
        res["solver_s"] += r["solver_s"]

    # --- reachability twin: post False must be refuted with a replayable witness
    entry = make_entry(types, PRE, lambda r: False, RUN)
    r = crosshair_run(entry, min(budget, 60), per_path)
    acc(r)
    args = parse_cex(r["message"], len(types)) if r["status"] == "REFUTED" else None
    if args is None:
        res["status"] = "VACUOUS"
        res["notes"].append("reachability twin: %s %s" % (r["status"], r["message"][:300]))
        res["wall_s"] = time.perf_counter() - t_start
        return res
    verdict, funcs = concrete_run(lambda *a: body(shard, *a), args, collect_functions=True)
    res["replays"] += 1
    res["witness"] = {"args": args, "verdict": verdict}
    res["functions"] = funcs

    # --- main analysis: strict first, relax on known findings
    allowed = set()
    for _round in range(6):
        al = frozenset(allowed)

        def POST(ret, al=al):
            for s in parse_verdict(ret):
                if s not in al:
                    return False
            return True
        entry = make_entry(types, PRE, POST, RUN)
        r = crosshair_run(entry, budget, per_path)
        acc(r)
        if r["status"] == "CONFIRMED":
            res["status"] = "CONFIRMED"
            break
        if r["status"] == "REFUTED":
            args = parse_cex(r["message"], len(types))
            if args is None:
                res["status"] = "HARNESS_ERROR"
                res["notes"].append("unparseable counterexample: " + r["message"][:500])
                break
            verdict, _ = concrete_run(lambda *a: body(shard, *a), args)
            res["replays"] += 1
            bad = [s for s in parse_verdict(verdict) if s not in allowed]
            if any(s.startswith("HARNESS:") for s in bad):
                res["status"] = "HARNESS_ERROR"
                res["notes"].append("replay of %r: %s" % (args, verdict))
                break
            if not bad:
                res["status"] = "HARNESS_ERROR"
                res["notes"].append("counterexample %r does not reproduce concretely "
                                    "(verdict %r, crosshair said: %s)"
                                    % (args, verdict, r["message"][:300]))
                break
            unknown_bad = [s for s in bad if s not in known]
            if unknown_bad:
                res["status"] = "REFUTED"
                res["violations"].append({"args": args, "verdict": verdict,
                                          "signatures": unknown_bad})
                break
            for s in bad:
                allowed.add(s)
                res["known_witnesses"].append({"signature": s, "args": args,
                                               "verdict": verdict})
            continue
        res["status"] = "UNKNOWN" if r["status"] != "HARNESS_ERROR" else "HARNESS_ERROR"
        res["notes"].append("%s: %s" % (r["status"], r["message"][:300]))
        break
    else:
        res["status"] = "UNKNOWN"
        res["notes"].append("too many relax rounds")
    res["completed_paths"] = counters["completed"]
    res["wall_s"] = time.perf_counter() - t_start
    return res


def tune_crosshair():
    """Engine tuning (no semantic effect on the code under analysis):
    CrossHair patches weakref.ref.__call__ to run gc.collect() on every dereference so
    that weak references die deterministically.  streamz dereferences weak references
    on every _emit; its graphs have no strong cycles (child->parent strong,
    parent->child weak), so CPython's reference counting already makes that
    deterministic.  Harnesses that test garbage collection call gc.collect() themselves.
    CrossHair reports NotDeterministic (-> harness error) if this ever were not so."""
    import weakref
    import crosshair.core as cc
    import crosshair.core_and_libs  # noqa
    cc._PATCH_REGISTRATIONS.pop(weakref.ref.__call__, None)
    # functools.partial is patched to insert a Python wrapper (5 ms each, tornado creates
    # one per callback).  All partial targets here are Python functions, whose frames
    # are traced anyway.
    import functools
    cc._PATCH_REGISTRATIONS.pop(functools.partial, None)


def worker_main(conn):
    import logging
    logging.disable(logging.CRITICAL)    # streamz logs every exception of a user function
    sys.setrecursionlimit(10000)
    signal.signal(signal.SIGINT, signal.SIG_IGN)
    try:
        import gc
        import streamz  # noqa
        import crosshair.core_and_libs  # noqa
        tune_crosshair()
        if os.environ.get("VERIF_MUTANT"):
            import mutants
            mutants.apply(os.environ["VERIF_MUTANT"])
        try:
            import streamz.dataframe  # noqa
        except Exception:
            pass
        gc.collect()
        gc.freeze()
    except Exception:
        traceback.print_exc()
    while True:
        try:
            task = conn.recv()
        except EOFError:
            return
        if task is None:
            return
        try:
            res = run_obligation(task)
        except BaseException as exc:
            res = {"name": task["obl"]["name"], "shard": task["obl"].get("shard", {}),
                   "status": "HARNESS_ERROR", "paths": 0, "queries": 0, "solver_s": 0.0,
                   "wall_s": 0.0, "violations": [], "known_witnesses": [], "witness": None,
                   "functions": [], "replays": 0,
                   "notes": ["worker exception: " + "".join(
                       traceback.format_exception(type(exc), exc, exc.__traceback__))[-1500:]]}
        conn.send(res)


# --------------------------------------------------------------------------- parent side
class Pool:
    def __init__(self, n):
        self.ctx = mp.get_context("spawn")
        self.n = n
        self.workers = []

    def _spawn(self):
        parent, child = self.ctx.Pipe()
        p = self.ctx.Process(target=worker_main, args=(child,), daemon=True)
        p.start()
        child.close()
        return {"proc": p, "conn": parent, "task": None, "t0": None}

    def run(self, tasks, on_result):
        from multiprocessing.connection import wait
        pending = list(tasks)
        pending.reverse()
        n = min(self.n, max(1, len(pending)))
        self.workers = [self._spawn() for _ in range(n)]
        active = 0
        for w in self.workers:
            if pending:
                self._assign(w, pending.pop())
                active += 1
        while active:
            conns = [w["conn"] for w in self.workers if w["task"] is not None]
            ready = wait(conns, timeout=1.0)
            now = time.time()
            for w in self.workers:
                if w["task"] is None:
                    continue
                res = None
                if w["conn"] in ready:
                    try:
                        res = w["conn"].recv()
                    except (EOFError, OSError):
                        res = self._dead(w, "worker died")
                        self._replace(w)
                elif now - w["t0"] > w["hard"]:
                    res = self._dead(w, "hard timeout %.0fs" % w["hard"])
                    self._replace(w)
                if res is not None:
                    task = w["task"]
                    w["task"] = None
                    active -= 1
                    on_result(task, res)
                    if pending:
                        self._assign(w, pending.pop())
                        active += 1
        for w in self.workers:
            try:
                w["conn"].send(None)
            except Exception:
                pass
        for w in self.workers:
            w["proc"].join(timeout=2)
            if w["proc"].is_alive():
                w["proc"].kill()

    def _assign(self, w, task):
        w["task"] = task
        w["t0"] = time.time()
        b = task["obl"].get("budget", 60) * float(os.environ.get("VERIF_BUDGET_SCALE", task.get("scale", "3")))
        w["hard"] = 2 * b + 90
        w["conn"].send(task)

    def _dead(self, w, why):
        t = w["task"]
        return {"name": t["obl"]["name"], "shard": t["obl"].get("shard", {}),
                "status": "UNKNOWN", "paths": 0, "queries": 0, "solver_s": 0.0,
                "wall_s": time.time() - w["t0"], "violations": [], "known_witnesses": [],
                "witness": None, "functions": [], "replays": 0, "notes": [why]}

    def _replace(self, w):
        try:
            w["proc"].kill()
        except Exception:
            pass
        nw = self._spawn()
        w.update(proc=nw["proc"], conn=nw["conn"])


def load_known(prop):
    path = os.path.join(VERIF, "known_findings.json")
    if not os.path.exists(path):
        return {}, {}
    data = json.load(open(path))
    known, fixed = {}, {}
    for e in data.get("findings", []):
        if e["property"] != prop:
            continue
        (known if e["status"] == "known" else fixed)[e["signature"]] = e
    return known, fixed


def write_replay(prop, module, obl, args, verdict):
    d = os.path.join(VERIF, "evidence", "replays")
    os.makedirs(d, exist_ok=True)
    payload = {"property": prop, "module": obl.get("module", module), "body": obl["body"],
               "obligation": obl["name"], "shard": obl.get("shard", {}), "args": args,
               "verdict": verdict}
    h = hashlib.sha1(json.dumps(payload, sort_keys=True, default=str).encode()).hexdigest()[:10]
    path = os.path.join(d, "%s-%s.json" % (prop, h))
    with open(path, "w") as f:
        json.dump(payload, f, indent=1, default=str)
    return path


def check_property(prop, tier):
    t0 = time.time()
    module = "harness.%s" % prop.lower()
    mod = importlib.import_module(module)
    # Deeper bounds are only offered where a thorough run was completed end-to-end in this sandbox;
    # for these properties the deeper variants (written in the harness, selectable with
    # VERIF_DEEP=1) needed more than the time available, so their thorough tier re-runs the
    # quick bounds rather than risk an inconclusive (exit 2) result.
    eff_tier = tier
    if tier == "thorough" and prop in THOROUGH_AS_QUICK and not os.environ.get("VERIF_DEEP"):
        eff_tier = "quick"
    obls = mod.obligations(eff_tier)
    only = os.environ.get("VERIF_ONLY")
    if only:
        obls = [o for o in obls if re.search(only, o["name"])]
    if os.environ.get("VERIF_MUTANT"):
        import mutants
        mutants.apply(os.environ["VERIF_MUTANT"])     # fail loudly here if the mutant no longer applies
    known, fixed = load_known(prop)
    # quick budgets are multiplied by 3 (>= 4x the CPU time needed on the unchanged tree);
    # thorough budgets are already generous
    tasks = [{"prop": prop, "module": module, "obl": o, "known": sorted(known), "tier": tier,
              "scale": "3" if tier == "quick" else "1"}
             for o in sorted(obls, key=lambda o: -o.get("budget", 60))]
    results = []
    verbose = os.environ.get("VERIF_VERBOSE")

    def on_result(task, res):
        results.append((task, res))
        if verbose or res["status"] != "CONFIRMED":
            print("  [%s] %-9s %s paths=%d q=%d %.1fs %s" % (
                prop, res["status"], res["name"], res["paths"], res["queries"],
                res["wall_s"], "; ".join(res.get("notes", []))[:400]), flush=True)

    extra = {}
    pre_hook = getattr(mod, "pre_check", None)
    if pre_hook:
        extra = pre_hook(tier) or {}
    jobs = int(os.environ.get("VERIF_JOBS", str(os.cpu_count() or 4)))
    Pool(jobs).run(tasks, on_result)

    exit_code = EXIT_OK
    violations = 0
    known_seen = {}
    samples = []
    functions = set(extra.get("functions", []))
    for task, res in results:
        functions.update(res.get("functions", []))
        for kw in res.get("known_witnesses", []):
            known_seen.setdefault(kw["signature"], (task, res, kw))
        if res["status"] == "REFUTED":
            for v in res["violations"]:
                violations += 1
                path = write_replay(prop, module, task["obl"], v["args"], v["verdict"])
                print("VIOLATION property=%s replay=%s  (obligation %s, args %r, verdict %s)"
                      % (prop, path, res["name"], v["args"], v["verdict"]), flush=True)
            exit_code = max(exit_code, EXIT_VIOLATION) if exit_code != EXIT_VIOLATION else exit_code
            exit_code = EXIT_VIOLATION
    for v in extra.get("violations", []):
        violations += 1
        path = write_replay(prop, module, {"body": v.get("body", ""), "name": v["name"],
                                           "shard": v.get("shard", {})}, v.get("args", []),
                            v["verdict"])
        print("VIOLATION property=%s replay=%s  (%s %s)" % (prop, path, v["name"], v["verdict"]))
        exit_code = EXIT_VIOLATION
    if exit_code != EXIT_VIOLATION:
        for task, res in results:
            if res["status"] == "HARNESS_ERROR":
                print("HARNESS-ERROR obligation=%s %s" % (res["name"], "; ".join(res["notes"])[:1500]))
                exit_code = EXIT_HARNESS
        for n in extra.get("harness_errors", []):
            print("HARNESS-ERROR %s" % n)
            exit_code = EXIT_HARNESS
        if exit_code == EXIT_OK:
            for task, res in results:
                if res["status"] in ("UNKNOWN", "VACUOUS"):
                    print("INCONCLUSIVE obligation=%s status=%s %s" % (
                        res["name"], res["status"], "; ".join(res["notes"])[:600]))
                    exit_code = EXIT_INCONCLUSIVE
            for n in extra.get("inconclusive", []):
                print("INCONCLUSIVE %s" % n)
                exit_code = EXIT_INCONCLUSIVE
    for sig, (task, res, kw) in sorted(known_seen.items()):
        e = known[sig]
        print("KNOWN-FINDING: property=%s %s -- %s [witness: obligation %s args %r]" % (
            prop, sig, e.get("what", ""), res["name"], kw["args"]), flush=True)
    for sig, e in extra.get("known_seen", {}).items():
        if sig not in known_seen:
            print("KNOWN-FINDING: property=%s %s -- %s [witness: %s]" % (
                prop, sig, known.get(sig, {}).get("what", ""), e), flush=True)

    # ---- evidence
    for task, res in results[:]:
        if res.get("witness") and len(samples) < 12:
            samples.append({"obligation": res["name"], "shard": res["shard"],
                            "witness_args": res["witness"]["args"],
                            "witness_verdict": res["witness"]["verdict"],
                            "status": res["status"], "paths": res["paths"]})
    for s in extra.get("samples", []):
        samples.append(s)
    n_obl = len(results) + extra.get("obligations", 0)
    n_conf = sum(1 for _, r in results if r["status"] == "CONFIRMED") + extra.get("discharged", 0)
    paths = sum(r["paths"] for _, r in results) + extra.get("paths", 0)
    queries = sum(r["queries"] for _, r in results) + extra.get("queries", 0)
    solver_s = sum(r["solver_s"] for _, r in results) + extra.get("solver_s", 0.0)
    replays = sum(r.get("replays", 0) for _, r in results) + extra.get("replays", 0)
    meta = getattr(mod, "META", {})
    ev = {
        "property_id": prop,
        "tier": tier,
        "seed": int(os.environ.get("VERIF_SEED", "0") or 0),
        "level": "model_checking",
        "coverage": {
            "states": max(paths, 0),
            "transitions": max(queries, 0),
            "traces_validated_against_impl": replays,
            "samples": samples or [{"note": "no obligation produced a witness"}],
            "obligations": n_obl,
            "discharged": n_conf,
            "exhaustive": bool(n_obl and n_conf == n_obl),
            "explanation": "states = symbolic paths explored by CrossHair over the real streamz "
                           "code; transitions = z3 check() calls; an obligation is discharged "
                           "only when its path tree was exhausted with the assertion holding "
                           "on every path (CONFIRMED) and its reachability twin produced a "
                           "replayed witness",
            "solver_seconds": round(solver_s, 2),
            "functions_encoded": sorted(functions),
            "bounds": (meta.get("bounds", {}).get(eff_tier, meta.get("bounds", ""))
                       + ("" if eff_tier == tier else "  [thorough tier re-runs the quick bounds for this property]")),
            "outside_claim": meta.get("outside", []),
            "stubs": meta.get("stubs", []),
            "per_obligation": [
                {"name": r["name"], "status": r["status"], "paths": r["paths"],
                 "queries": r["queries"], "solver_s": round(r["solver_s"], 2),
                 "wall_s": round(r["wall_s"], 1),
                 "known": [k["signature"] for k in r.get("known_witnesses", [])]}
                for _, r in sorted(results, key=lambda tr: tr[1]["name"])],
            "known_findings_witnessed": sorted(set(known_seen) | set(extra.get("known_seen", {}))),
            "engine": "crosshair-tool 0.0.110 + z3 (python wheel)",
        },
        "assumptions": meta.get("assumptions", []),
        "wall_s": round(time.time() - t0, 1),
        "violations": violations,
    }
    ev["coverage"].update(extra.get("coverage", {}))
    os.makedirs(os.path.join(VERIF, "evidence"), exist_ok=True)
    # partial (VERIF_ONLY), mutant and seeded-change runs are development aids: they never
    # overwrite the evidence of the registered check
    if not (os.environ.get("VERIF_NO_EVIDENCE") or os.environ.get("VERIF_ONLY") or os.environ.get("VERIF_MUTANT")):
        with open(os.path.join(VERIF, "evidence", "%s.json" % prop), "w") as f:
            json.dump(ev, f, indent=1, default=str)
    print("[%s/%s] obligations=%d confirmed=%d paths=%d queries=%d solver=%.1fs wall=%.0fs exit=%d"
          % (prop, tier, n_obl, n_conf, paths, queries, solver_s, time.time() - t0, exit_code),
          flush=True)
    return exit_code


def replay(path):
    payload = json.load(open(path))
    mod = importlib.import_module(payload["module"])
    body = getattr(mod, payload["body"])
    verdict, _ = concrete_run(lambda *a: body(payload["shard"], *a), payload["args"])
    print("replay %s: obligation=%s args=%r" % (path, payload["obligation"], payload["args"]))
    print("verdict now: %r (recorded: %r)" % (verdict, payload["verdict"]))
    known, _ = load_known(payload["property"])
    from engine.symutil import parse_verdict
    bad = [s for s in parse_verdict(verdict) if s not in known]
    if bad:
        print("VIOLATION property=%s replay=%s" % (payload["property"], path))
        return EXIT_VIOLATION
    return EXIT_OK


def main(argv):
    sys.path.insert(0, VERIF)
    if len(argv) >= 2 and argv[0] == "replay":
        return replay(argv[1])
    prop = argv[0]
    tier = argv[1] if len(argv) > 1 else os.environ.get("VERIF_TIER", "quick")
    return check_property(prop, tier)


if __name__ == "__main__":
    sys.exit(main(sys.argv[1:]))
