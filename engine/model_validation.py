"""Differential validation of mframe against the real pandas: random concrete batch
sequences are pushed through the *real streamz wrappers* on both backends for every
aggregation used by the dataframe checks; results must be identical (floats up to 1e-9).
Runs at the start of C06/C07/C11/C12; a mismatch is a harness error (exit 3), never a
violation."""
import random
import time

from engine import dfrun as D

SPECS = ([{"op": o} for o in ("sum", "count", "size", "mean", "value_counts")]
         + [{"op": o, "kind": "frame", "groupby": g} for o in ("sum", "count", "size", "mean", "var")
            for g in ("column", "stream")]
         + [{"op": o, "window": ("n", n)} for o in ("sum", "count", "mean", "var", "size", "value_counts")
            for n in (1, 2, 3)]
         + [{"op": o, "window": ("value", T)} for o in ("sum", "count", "mean") for T in (2, 3)]
         + [{"op": o, "kind": "frame", "groupby": g, "window": ("n", 2)}
            for o in ("sum", "count", "mean", "size", "var") for g in ("column", "stream")]
         + [{"op": o, "kind": "frame", "groupby": "column", "window": ("value", 3)} for o in ("sum", "count")]
         + [{"op": o, "kind": "frame2"} for o in ("sum", "count", "mean")]
         + [{"op": "mean", "kind": "frame2", "window": ("n", 2)}]
         + [{"op": o} for o in ("cumsum", "cummax", "cummin", "cumprod")]
         + [{"op": "rolling_" + o, "rolling": ("n", n)} for o in ("sum", "mean", "count", "min", "max")
            for n in (1, 2, 3)]
         + [{"op": "rolling_" + o, "rolling": ("value", 3)} for o in ("sum", "count", "max", "mean")]
         + [{"op": o, "window": ("expanding",)} for o in ("sum", "mean", "count")]
         + [{"op": "mean", "window": ("ewm", c)} for c in (0, 1, 3)])


def rand_batches(rnd):
    nb = rnd.randint(1, 4)
    t = 0
    out = []
    for _ in range(nb):
        n = rnd.choice([0, 0, 1, 2, 3])
        idx = []
        for _ in range(n):
            t += rnd.choice([0, 1, 1, 2, 4])
            idx.append(t)
        out.append({"x": [rnd.randint(-3, 5) for _ in range(n)],
                    "k": [rnd.randint(0, 2) for _ in range(n)], "idx": idx})
    return out


def one(kind, spec, batches):
    be = D.Backend(kind)
    be.time = kind == "pandas" and (spec.get("window", ("",))[0] == "value"
                                    or spec.get("rolling", ("",))[0] == "value")
    saved = D.install_model() if kind == "model" else None
    try:
        emit, L, make = D.build(be, spec, {"x": [0], "k": [0], "idx": [0]})
        for b in batches:
            emit(b)
        return [D.norm(x) for x in L]
    except Exception as e:
        return "EXC " + type(e).__name__
    finally:
        if saved:
            D.uninstall_model(saved)


def run(ncases=200, seed=0):
    import logging
    logging.disable(logging.CRITICAL)
    rnd = random.Random(seed)
    t0 = time.time()
    errors = []
    n = 0
    samples = []
    while n < ncases:
        batches = rand_batches(rnd)
        for spec in SPECS:
            n += 1
            a = one("pandas", spec, batches)
            b = one("model", spec, batches)
            if isinstance(a, str) or isinstance(b, str):
                ok = a == b
            else:
                ok = len(a) == len(b) and all(
                    D.same(x, y, as_map=(spec["op"] == "value_counts")) for x, y in zip(a, b))
            if not ok:
                errors.append("model validation: %s on %s: pandas=%s model=%s" % (spec, batches, a, b))
            if len(samples) < 2:
                samples.append({"model_validation_case": {"spec": spec, "batches": batches, "result": str(b)[:200]}})
            if n >= ncases:
                break
    return {"harness_errors": errors[:5], "replays": n, "samples": samples,
            "coverage": {"model_validation_cases": n, "model_validation_mismatches": len(errors),
                         "model_validation_seconds": round(time.time() - t0, 1)}}
