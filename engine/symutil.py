"""Helpers shared by the harnesses: concretise-by-forking, tracing control, verdicts."""
import contextlib

try:
    from crosshair.tracers import NoTracing, ResumedTracing, is_tracing
except Exception:  # pragma: no cover - plain replay without crosshair importable
    NoTracing = ResumedTracing = None

    def is_tracing():
        return False


def pick(n, lo, hi):
    """Return a *concrete* int equal to n (lo <= n <= hi assumed by the caller's
    precondition).  Under CrossHair every comparison is a solver fork, so all values
    of the range are covered; in a concrete replay it is the identity."""
    for c in range(lo, hi + 1):
        if n == c:
            return c
    raise AssertionError("pick: value outside [%d,%d]" % (lo, hi))


def decide(c, allowed):
    """Concretise one choice *lazily*: when called from inside an untraced region, tracing
    is resumed just for the comparisons, so the solver forks here and nowhere else.
    Returns None when the value is none of the allowed ones (caller prunes the path).
    (Under tracing CrossHair makes type(symbolic) look like int, so tracing is tested first.)"""
    if is_tracing():
        for a in allowed:
            if c == a:
                return a
        return None
    if type(c) is int or type(c) is bool:
        return c if c in allowed else None
    with ResumedTracing():
        for a in allowed:
            if c == a:
                return a
        return None


def pick_bool(b):
    if b:
        return True
    return False


@contextlib.contextmanager
def untraced():
    """Run a region without CrossHair's tracer (construction of pipelines from
    concrete arguments only).  No-op outside CrossHair."""
    if NoTracing is not None and is_tracing():
        with NoTracing():
            yield
    else:
        yield


def is_concrete(v):
    return type(v) in (int, bool, str, float, type(None), tuple, list)


class Verdict:
    """Collects violated-clause signatures. Signatures are concrete literals that name
    the failing call site / history shape, never symbolic values."""

    def __init__(self):
        self.sigs = []

    def add(self, sig):
        if sig not in self.sigs:
            self.sigs.append(sig)

    def check(self, cond, sig):
        if not cond:
            self.add(sig)
            return False
        return True

    def result(self):
        return ";".join(sorted(self.sigs))


def parse_verdict(s):
    return [x for x in s.split(";") if x]
