"""Cooperative model of the threads involved in a *blocking* emit (loop in another thread).

streamz.core.sync() parks the calling thread in threading.Event.wait() while the loop
thread runs the emission.  Here there is one real thread: Event.wait() hands control to
a driver that lets "the loop thread" make progress - run ready callbacks, complete
consumer jobs, fire timers - exactly while the caller is blocked, in the order the
(symbolic) schedule says.  get_thread_identity() answers 2 inside loop callbacks and 1
outside, so that sync()'s "called from the loop thread" guard behaves as in production.
Not modelled: several user threads emitting concurrently.
"""


class CoopEvent:
    driver = None

    def __init__(self):
        self._flag = False

    def set(self):
        self._flag = True

    def is_set(self):
        return self._flag

    def wait(self, timeout=None):
        if not self._flag and CoopEvent.driver is not None:
            CoopEvent.driver(self)
        return self._flag


class ThreadRecorder:
    created = []

    def __init__(self, target=None, **kw):
        self.target = target
        self.daemon = False
        ThreadRecorder.created.append(self)

    def start(self):
        pass


def install(world, driver):
    import streamz.core as core
    saved = (core.threading, core.get_thread_identity)

    class FakeThreading:
        Event = CoopEvent
        Thread = ThreadRecorder
        local = saved[0].local
    CoopEvent.driver = driver
    ThreadRecorder.created = []
    core.threading = FakeThreading
    core.get_thread_identity = lambda: 2 if world.loop.in_callback else 1
    return saved


def uninstall(saved):
    import streamz.core as core
    core.threading, core.get_thread_identity = saved
    CoopEvent.driver = None
    ts = core.thread_state
    if hasattr(ts, "asynchronous"):
        try:
            del ts.asynchronous
        except AttributeError:
            pass
