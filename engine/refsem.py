"""Independent list-level reference semantics of the synchronous streamz nodes.

Written from the docstrings and docs/source/core.rst; shares no code with streamz.
Every node is a small state machine  step(x, md, who) -> [(value, md), ...]  where md is
the flat list of metadata entries (dicts) of the input elements that contributed, in
member order.  `held()` lists the metadata entries the node still legitimately holds
(with multiplicity) - the holder convention fixed by the existing test-suite:
an unfilled partition / window keeps its members, a combining node keeps the newest
value of each lossy input, an unflushed collect keeps everything.

Pipelines are evaluated by depth-first push in attachment order (the documented
semantics: sibling branches see each element in the order in which they were attached).
"""

NO_DEFAULT = object()
INF = None


class RNode:
    kind = "stream"

    def __init__(self, nups=1, **params):
        self.nups = nups
        self.p = params
        self.init()

    def init(self):
        pass

    def step(self, x, md, who):
        return [(x, md)]

    def held(self):
        return []


class RMap(RNode):
    def step(self, x, md, who):
        return [(self.p["func"](x), md)]


class RStarmap(RNode):
    def step(self, x, md, who):
        return [(self.p["func"](*x), md)]


class RFilter(RNode):
    def step(self, x, md, who):
        pred = self.p.get("predicate")
        ok = pred(x) if pred is not None else bool(x)
        return [(x, md)] if ok else []


class RAccumulate(RNode):
    def init(self):
        self.state = self.p.get("start", NO_DEFAULT)

    def step(self, x, md, who):
        ws = self.p.get("with_state", False)
        if self.state is NO_DEFAULT:
            self.state = x
            return [((x, x) if ws else x, md)]
        r = self.p["func"](self.state, x)
        if self.p.get("returns_state", False):
            self.state, out = r
        else:
            self.state = out = r
        return [((self.state, out) if ws else out, md)]


class RSlice(RNode):
    """Works like list[] syntax: element number i passes iff i in range(start, end, step)."""

    def init(self):
        self.i = 0

    def step(self, x, md, who):
        i = self.i
        self.i += 1
        start = self.p.get("start") or 0
        end = self.p.get("end")
        step = self.p.get("step") or 1
        if i < start:
            return []
        if end is not None and i >= end:
            return []
        if (i - start) % step != 0:
            return []
        return [(x, md)]


def _key(spec, x):
    if spec is None:
        return None
    if callable(spec):
        return spec(x)
    return x[spec]


class RPartition(RNode):
    def init(self):
        self.bufs = []   # list of [key, [(x, md), ...]] in first-seen order

    def step(self, x, md, who):
        k = _key(self.p.get("key"), x)
        for ent in self.bufs:
            if ent[0] == k:
                break
        else:
            ent = [k, []]
            self.bufs.append(ent)
        ent[1].append((x, md))
        if len(ent[1]) == self.p["n"]:
            items = ent[1]
            ent[1] = []
            return [(tuple(v for v, _ in items), [m for _, ml in items for m in ml])]
        return []

    def held(self):
        return [m for _, items in self.bufs for _, ml in items for m in ml]


class RPartitionUnique(RNode):
    def init(self):
        self.items = []  # [(key, x, md)] in emission order

    def step(self, x, md, who):
        keyspec = self.p.get("key")
        k = x if keyspec is None else _key(keyspec, x)
        present = [i for i, it in enumerate(self.items) if it[0] == k]
        if self.p.get("keep", "first") == "last":
            if present:
                del self.items[present[0]]
            self.items.append((k, x, md))
        else:
            if not present:
                self.items.append((k, x, md))
        if len(self.items) == self.p["n"]:
            items, self.items = self.items, []
            return [(tuple(v for _, v, _ in items), [m for _, _, ml in items for m in ml])]
        return []

    def held(self):
        return [m for _, _, ml in self.items for m in ml]


class RSlidingWindow(RNode):
    def init(self):
        self.buf = []

    def step(self, x, md, who):
        n = self.p["n"]
        self.buf.append((x, md))
        self.buf = self.buf[-n:]
        if self.p.get("return_partial", True) or len(self.buf) == n:
            return [(tuple(v for v, _ in self.buf), [m for _, ml in self.buf for m in ml])]
        return []

    def held(self):
        n = self.p["n"]
        live = self.buf[-(n - 1):] if n > 1 else []
        if len(self.buf) < n:
            live = self.buf
        return [m for _, ml in live for m in ml]


class RUnique(RNode):
    def init(self):
        self.seen = []  # most recent first

    def step(self, x, md, who):
        key = self.p.get("key")
        y = key(x) if key is not None else x
        maxsize = self.p.get("maxsize")
        if y in self.seen:
            self.seen.remove(y)
            self.seen.insert(0, y)
            return []
        self.seen.insert(0, y)
        if maxsize:
            del self.seen[maxsize:]
        return [(x, md)]


class RFlatten(RNode):
    def step(self, x, md, who):
        items = list(x)
        out = [(v, []) for v in items]
        if out:
            out[-1] = (out[-1][0], md)
        return out


class RPluck(RNode):
    def step(self, x, md, who):
        pick = self.p["pick"]
        if isinstance(pick, list):
            return [(tuple(x[i] for i in pick), md)]
        return [(x[pick], md)]


class RCollect(RNode):
    def init(self):
        self.cache = []

    def step(self, x, md, who):
        self.cache.append((x, md))
        return []

    def flush(self):
        items, self.cache = self.cache, []
        return [(tuple(v for v, _ in items), [m for _, ml in items for m in ml])]

    def held(self):
        return [m for _, ml in self.cache for m in ml]


class RUnion(RNode):
    pass


class RZip(RNode):
    """params: literals = {position: value} in the output tuple."""

    def init(self):
        self.q = [[] for _ in range(self.nups)]

    def step(self, x, md, who):
        self.q[who].append((x, md))
        if all(self.q):
            heads = [q.pop(0) for q in self.q]
            vals = [v for v, _ in heads]
            lits = self.p.get("literals") or {}
            out = []
            total = len(vals) + len(lits)
            it = iter(vals)
            for pos in range(total):
                if pos in lits:
                    out.append(lits[pos])
                else:
                    out.append(next(it))
            return [(tuple(out), [m for _, ml in heads for m in ml])]
        return []

    def held(self):
        return [m for q in self.q for _, ml in q for m in ml]


class RCombineLatest(RNode):
    def init(self):
        self.last = [None] * self.nups   # None or (x, md)

    def step(self, x, md, who):
        self.last[who] = (x, md)
        emit_on = self.p.get("emit_on")
        if emit_on is None:
            emit_on = list(range(self.nups))
        if all(l is not None for l in self.last) and who in emit_on:
            return [(tuple(l[0] for l in self.last), [m for l in self.last for m in l[1]])]
        return []

    def held(self):
        return [m for l in self.last if l is not None for m in l[1]]


class RZipLatest(RNode):
    def init(self):
        self.last = [None] * self.nups
        self.buf = []
        self.seen = [False] * self.nups

    def step(self, x, md, who):
        self.seen[who] = True
        if who == 0:
            self.buf.append((x, md))
        else:
            self.last[who] = (x, md)
        out = []
        if all(self.seen):
            while self.buf:
                v, ml = self.buf.pop(0)
                vals = [v] + [l[0] for l in self.last[1:]]
                mds = list(ml) + [m for l in self.last[1:] for m in l[1]]
                out.append((tuple(vals), mds))
        return out

    def held(self):
        return ([m for _, ml in self.buf for m in ml]
                + [m for l in self.last[1:] if l is not None for m in l[1]])


class RSink(RNode):
    def step(self, x, md, who):
        f = self.p.get("func")
        if f is not None:
            f(x)
        return []


KINDS = {
    "source": RNode, "map": RMap, "starmap": RStarmap, "filter": RFilter,
    "accumulate": RAccumulate, "slice": RSlice, "partition": RPartition,
    "partition_unique": RPartitionUnique, "sliding_window": RSlidingWindow,
    "unique": RUnique, "flatten": RFlatten, "pluck": RPluck, "collect": RCollect,
    "union": RUnion, "zip": RZip, "combine_latest": RCombineLatest,
    "zip_latest": RZipLatest, "sink": RSink,
}


class RefPipeline:
    """spec: list of (kind, params, ups) ; ups = list of node indices (creation order).
    `children` lists, per node, the downstream node indices in attachment order."""

    def __init__(self, spec, order=None):
        self.spec = spec
        self.nodes = []
        self.children = [[] for _ in spec]
        for i, (kind, params, ups) in enumerate(spec):
            params = {k: v for k, v in params.items()}
            self.nodes.append(KINDS[kind](nups=max(1, len(ups)), **params))
        attach = order if order is not None else range(len(spec))
        for i in attach:
            for u in spec[i][2]:
                self.children[u].append(i)
        self.emitted = [[] for _ in spec]     # what each node emitted: (value, md)
        self.log = []                         # (node, value) in global order

    def emit(self, i, x, md=None):
        """Entry point: node i (a source) emits x."""
        self._out(i, x, list(md or []))

    def _out(self, i, x, md):
        self.emitted[i].append((x, md))
        self.log.append((i, x))
        for c in self.children[i]:
            self._push(c, x, md, i)

    def _push(self, c, x, md, frm):
        kind, params, ups = self.spec[c]
        who = ups.index(frm)
        for (y, ymd) in self.nodes[c].step(x, md, who):
            self._out(c, y, ymd)

    def flush(self, i):
        for (y, ymd) in self.nodes[i].flush():
            self._out(i, y, ymd)

    def held(self):
        out = []
        for n in self.nodes:
            out.extend(n.held())
        return out
