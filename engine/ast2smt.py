"""Python-AST -> SMT-LIB for two straight-line arithmetic kernels (re-read from /repo on every
run): rate_limit.update (C13) and the clamp block of FromKafkaBatched.poll_kafka (C09).

Deliberately tiny: assignments to names / self.<state>, + - max min, comparisons, one
`if`, and the marker calls listed below.  Anything else makes the result INCONCLUSIVE
(never 'holds').  Each obligation is the negation of an inductive step; z3 and cvc5 must
both answer `unsat`; any `(error` line or disagreement is inconclusive; a `sat` model is
handed back for replay against the real code.
"""
import ast
import inspect
import os
import shutil
import subprocess
import tempfile
import textwrap
import time


class Unsupported(Exception):
    pass


def smt_expr(node, env, state):
    """Translate an arithmetic expression to an SMT-LIB term (reals)."""
    if isinstance(node, ast.Name):
        if node.id in env:
            return env[node.id]
        raise Unsupported("unknown name %s" % node.id)
    if isinstance(node, ast.Attribute) and isinstance(node.value, ast.Name) and node.value.id == "self":
        if node.attr in state:
            return state[node.attr]
        raise Unsupported("unknown attribute self.%s" % node.attr)
    if isinstance(node, ast.Constant) and isinstance(node.value, (int, float)):
        v = node.value
        return "%s" % v if v >= 0 else "(- %s)" % (-v)
    if isinstance(node, ast.BinOp) and isinstance(node.op, (ast.Add, ast.Sub)):
        op = "+" if isinstance(node.op, ast.Add) else "-"
        return "(%s %s %s)" % (op, smt_expr(node.left, env, state), smt_expr(node.right, env, state))
    if isinstance(node, ast.Call) and isinstance(node.func, ast.Name) and node.func.id in ("max", "min") \
            and len(node.args) == 2 and not node.keywords:
        a, b = (smt_expr(x, env, state) for x in node.args)
        cmp = ">=" if node.func.id == "max" else "<="
        return "(ite (%s %s %s) %s %s)" % (cmp, a, b, a, b)
    raise Unsupported(ast.dump(node)[:80])


def smt_cond(node, env, state):
    if isinstance(node, ast.Compare) and len(node.ops) == 1:
        ops = {ast.Lt: "<", ast.LtE: "<=", ast.Gt: ">", ast.GtE: ">="}
        for k, v in ops.items():
            if isinstance(node.ops[0], k):
                return "(%s %s %s)" % (v, smt_expr(node.left, env, state),
                                       smt_expr(node.comparators[0], env, state))
    raise Unsupported(ast.dump(node)[:80])


def _is_call(node, obj, attr):
    return (isinstance(node, ast.Call) and isinstance(node.func, ast.Attribute) and node.func.attr == attr
            and isinstance(node.func.value, ast.Name) and node.func.value.id == obj)


def translate_rate_limit(fn):
    """Returns dict(next1=term, delivery=term) over the symbols now, next0, interval."""
    src = textwrap.dedent(inspect.getsource(fn))
    tree = ast.parse(src).body[0]
    env = {}
    state = {"next": "next0", "interval": "interval"}
    suspended = False
    sleep = None        # (cond, duration)
    delivery = None
    for st in tree.body:
        if isinstance(st, ast.Expr) and isinstance(st.value, ast.Constant):
            continue                                           # docstring
        if isinstance(st, ast.Expr) and (_is_call(st.value, "self", "_retain_refs")
                                         or _is_call(st.value, "self", "_release_refs")):
            continue                                           # reference counting: no timing state
        if isinstance(st, ast.Assign) and len(st.targets) == 1:
            tgt = st.targets[0]
            if isinstance(st.value, ast.Call) and isinstance(st.value.func, ast.Name) \
                    and st.value.func.id == "time" and isinstance(tgt, ast.Name):
                if suspended:
                    raise Unsupported("time() read after a suspension point")
                env[tgt.id] = "now"
                continue
            if isinstance(tgt, ast.Name):
                env[tgt.id] = smt_expr(st.value, env, state)
                continue
            if isinstance(tgt, ast.Attribute) and isinstance(tgt.value, ast.Name) and tgt.value.id == "self":
                if suspended:
                    raise Unsupported("self.%s written after a suspension point (not atomic)" % tgt.attr)
                state[tgt.attr] = smt_expr(st.value, env, state)
                continue
        if isinstance(st, ast.If) and not st.orelse and len(st.body) == 1:
            b = st.body[0]
            if isinstance(b, ast.Expr) and isinstance(b.value, ast.Yield) and _is_call(b.value.value, "gen", "sleep"):
                if sleep is not None or delivery is not None:
                    raise Unsupported("second sleep")
                sleep = (smt_cond(st.test, env, state), smt_expr(b.value.value.args[0], env, state))
                suspended = True
                continue
        if isinstance(st, ast.Expr) and isinstance(st.value, ast.Yield) and _is_call(st.value.value, "self", "_emit"):
            if delivery is not None:
                raise Unsupported("second emit")
            if sleep is None:
                delivery = "now"
            else:
                delivery = "(ite %s (+ now %s) now)" % sleep
            suspended = True
            continue
        raise Unsupported("statement: " + ast.dump(st)[:100])
    if delivery is None:
        raise Unsupported("no emit found")
    return {"next1": state["next"], "delivery": delivery}


def run_solver(binary, script, timeout=60):
    path = shutil.which(binary)
    if not path:
        return "missing", ""
    with tempfile.NamedTemporaryFile("w", suffix=".smt2", delete=False) as f:
        f.write(script)
        fn = f.name
    try:
        args = [path, fn] if "cvc5" in binary else [path, "-smt2", fn]
        p = subprocess.run(args, capture_output=True, text=True, timeout=timeout)
        out = (p.stdout + p.stderr).strip()
    except subprocess.TimeoutExpired:
        return "timeout", ""
    finally:
        os.unlink(fn)
    if "(error" in out or "error" in out.lower().split("\n")[0:1]:
        return "error", out
    first = out.split("\n")[0].strip()
    return first, out


def discharge(name, decls, assumptions, goal, logic="QF_LRA"):
    """unsat of (assumptions and not goal) by z3 and cvc5."""
    script = "(set-logic %s)\n" % logic
    for d in decls:
        script += "(declare-const %s Real)\n" % d
    for a in assumptions:
        script += "(assert %s)\n" % a
    script += "(assert (not %s))\n(check-sat)\n" % goal
    t0 = time.time()
    r1, o1 = run_solver("z3", script)
    r2, o2 = run_solver("cvc5", script)
    if r1 == "sat":
        _, o1 = run_solver("z3", script + "(get-model)\n")
    dt = time.time() - t0
    if r1 == "unsat" and r2 == "unsat":
        status = "unsat"
    elif r1 == "sat" or r2 == "sat":
        status = "sat"
    else:
        status = "inconclusive(%s/%s)" % (r1, r2)
    return {"name": name, "status": status, "z3": r1, "cvc5": r2, "seconds": round(dt, 2),
            "model": o1 if r1 == "sat" else "", "script": script}


def rate_limit_lemma():
    """Inductive step for rate_limit.update, any number of arrivals.
    State invariant after at least one delivery:  next == last + interval  (last = instant of
    the previous delivery).  One update, atomic up to its first suspension point:
      spacing   delivery >= last + interval
      inv       next' == delivery + interval
      idle      now >= last + interval  =>  delivery == now
      order     delivery >= last   (deliveries in arrival order, timers fire in deadline order)"""
    import streamz.core as core
    fn = core.rate_limit.update
    fn = getattr(fn, "__wrapped__", fn)
    try:
        t = translate_rate_limit(fn)
    except Unsupported as exc:
        return {"inconclusive": ["ast2smt(rate_limit.update): unsupported construct: %s" % exc], "results": []}
    decls = ["now", "next0", "interval", "last"]
    inv = ["(> interval 0)", "(= next0 (+ last interval))", "(>= now 0)"]
    d, n1 = t["delivery"], t["next1"]
    results = [
        discharge("spacing", decls, inv, "(>= %s (+ last interval))" % d),
        discharge("invariant-preserved", decls, inv, "(= %s (+ %s interval))" % (n1, d)),
        discharge("idle-line-not-delayed", decls, inv + ["(>= now (+ last interval))"], "(= %s now)" % d),
        discharge("order", decls, inv, "(> %s last)" % d),
        # first arrival: next0 is far in the past
        discharge("first-arrival-immediate", decls, ["(> interval 0)", "(<= next0 now)"], "(= %s now)" % d),
        discharge("first-arrival-invariant", decls, ["(> interval 0)", "(<= next0 now)"],
                  "(= %s (+ %s interval))" % (n1, d)),
    ]
    return {"inconclusive": [], "results": results, "terms": t}
