"""Build a *real* streamz pipeline from the same spec the reference interpreter reads.

spec: list of (kind, params, ups); ups = indices of upstream nodes (creation order).
"""
from streamz import Stream
from streamz.core import RefCounter


class Rec(Stream):
    """Recording node (subclass of the real Stream): logs (x, metadata) it is offered.
    Holds nothing, returns nothing."""

    def __init__(self, upstream, store, tag, glog=None, **kw):
        self.store = store
        self.tag = tag
        self.glog = glog
        Stream.__init__(self, upstream, **kw)

    def update(self, x, who=None, metadata=None):
        self.store.append((x, list(metadata) if isinstance(metadata, list) else metadata))
        if self.glog is not None:
            self.glog.append((self.tag, x))
        return []


def make_node(kind, params, ups, source_kwargs):
    p = dict(params)
    if kind == "source":
        return Stream(**source_kwargs)
    up = ups[0] if ups else None
    if kind == "map":
        return up.map(p["func"])
    if kind == "starmap":
        return up.starmap(p["func"])
    if kind == "filter":
        return up.filter(p.get("predicate"))
    if kind == "accumulate":
        kw = {}
        for k in ("start", "returns_state", "with_state"):
            if k in p:
                kw[k] = p[k]
        return up.accumulate(p["func"], **kw)
    if kind == "slice":
        return up.slice(p.get("start"), p.get("end"), p.get("step"))
    if kind == "partition":
        kw = {}
        if p.get("key") is not None:
            kw["key"] = p["key"]
        if p.get("timeout") is not None:
            kw["timeout"] = p["timeout"]
        return up.partition(p["n"], **kw)
    if kind == "partition_unique":
        kw = {"keep": p.get("keep", "first")}
        if p.get("key") is not None:
            kw["key"] = p["key"]
        return up.partition_unique(p["n"], **kw)
    if kind == "sliding_window":
        return up.sliding_window(p["n"], return_partial=p.get("return_partial", True))
    if kind == "unique":
        kw = {}
        for k in ("maxsize", "key", "hashable"):
            if p.get(k) is not None:
                kw[k] = p[k]
        return up.unique(**kw)
    if kind == "flatten":
        return up.flatten()
    if kind == "pluck":
        return up.pluck(p["pick"])
    if kind == "collect":
        return up.collect()
    if kind == "union":
        return ups[0].union(*ups[1:])
    if kind == "zip":
        lits = p.get("literals") or {}
        args = []
        it = iter(ups)
        for pos in range(len(ups) + len(lits)):
            args.append(lits[pos] if pos in lits else next(it))
        kw = {}
        if p.get("maxsize") is not None:
            kw["maxsize"] = p["maxsize"]
        if isinstance(args[0], Stream):
            return args[0].zip(*args[1:], **kw)
        from streamz.core import zip as szip
        return szip(*args, **kw)
    if kind == "combine_latest":
        kw = {}
        eo = p.get("emit_on")
        if eo is not None:
            if p.get("emit_on_as") == "stream":
                eo2 = [ups[i] for i in eo]
                kw["emit_on"] = eo2[0] if len(eo2) == 1 and p.get("emit_on_scalar") else eo2
            else:
                kw["emit_on"] = eo[0] if len(eo) == 1 and p.get("emit_on_scalar") else list(eo)
        return ups[0].combine_latest(*ups[1:], **kw)
    if kind == "zip_latest":
        return ups[0].zip_latest(*ups[1:])
    if kind == "sink":
        return up.sink(p["func"])
    raise ValueError(kind)


class RealPipeline:
    def __init__(self, spec, source_kwargs=None, record=True, order=None):
        self.spec = spec
        self.nodes = [None] * len(spec)
        self.recs = [None] * len(spec)
        self.stores = [[] for _ in spec]
        self.glog = []
        source_kwargs = source_kwargs or {}
        for i in (order if order is not None else range(len(spec))):
            kind, params, ups = spec[i]
            self.nodes[i] = make_node(kind, params, [self.nodes[u] for u in ups], source_kwargs)
            if record and kind != "sink":
                self.recs[i] = Rec(self.nodes[i], self.stores[i], i, self.glog)

    def seen(self, i):
        return self.stores[i]


class TrackedRef(RefCounter):
    """The real RefCounter, instrumented: records every count it goes through."""

    def __init__(self, key, callbacks, loop, events=None, clock=None):
        self.key = key
        self.history = [0]
        self.events = events
        self.clock = clock
        RefCounter.__init__(self, cb=lambda: callbacks.append(key), loop=loop)

    def _who(self):
        import sys
        f = sys._getframe(2)
        # skip Stream._retain_refs / _release_refs
        while f is not None and f.f_code.co_name in ("_retain_refs", "_release_refs", "retain", "release"):
            f = f.f_back
        if f is None:
            return "?"
        return getattr(f.f_code, "co_qualname", f.f_code.co_name)

    def retain(self, n=1):
        RefCounter.retain(self, n)
        self.history.append(self.count)
        if self.events is not None:
            self.events.append(("retain", self.clock() if self.clock else None, self.key, self._who(), self.count))

    def release(self, n=1):
        RefCounter.release(self, n)
        self.history.append(self.count)
        if self.events is not None:
            self.events.append(("release", self.clock() if self.clock else None, self.key, self._who(), self.count))

    def went_negative(self):
        return any(c < 0 for c in self.history)

    def rose_after_zero(self):
        seen_pos = False
        zero = False
        for c in self.history:
            if c > 0:
                if zero:
                    return True
                seen_pos = True
            elif seen_pos:
                zero = True
        return False

    def reached_zero(self):
        seen_pos = False
        for c in self.history:
            if c > 0:
                seen_pos = True
            elif seen_pos:
                return True
        return False


def make_metadata(tag, nmd, with_ref, loop, callbacks, refs=None, events=None, clock=None):
    """nmd (concrete 0..2) metadata dicts for one element; each gets its own RefCounter."""
    out = []
    for j in range(nmd):
        d = {"id": (tag, j)}
        if with_ref:
            key = (tag, j)
            d["ref"] = TrackedRef(key, callbacks, loop, events=events, clock=clock)
            if refs is not None:
                refs[key] = d["ref"]
        out.append(d)
    return out
