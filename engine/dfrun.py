"""Run one streaming-dataframe aggregation of the *real* streamz wrappers over a batch
sequence, on either backend:
   'model'  - mframe (list-backed, values may be symbolic)
   'pandas' - the real pandas (concrete replay / model validation)
and compute the one-shot oracle (same backend) over the concatenated prefix / window.
Batches are given as raw python data: {"x": [...], "k": [...], "idx": [...]}.
Results are normalised to python values: scalar, {key: value}, or [values].
"""
import math


def install_model():
    """Point the pandas-only helpers of streamz.dataframe at their model counterparts."""
    import mframe
    import streamz.dataframe.aggregations as A
    import streamz.dataframe.core as C

    class PD:
        Timedelta = mframe.Duration
        Timestamp = staticmethod(mframe.Timestamp)
        DatetimeIndex = ()
    saved = (A.pd, C.pd)
    A.pd = PD
    C.pd = PD
    return saved


def uninstall_model(saved):
    import streamz.dataframe.aggregations as A
    import streamz.dataframe.core as C
    A.pd, C.pd = saved


def _nan(vals):
    vals = list(vals)
    if any(v is None for v in vals):
        return [float("nan") if v is None else float(v) for v in vals]
    return vals


class Backend:
    def __init__(self, kind):
        self.kind = kind
        if kind == "pandas":
            import pandas as pd
            self.pd = pd
        else:
            import mframe
            self.pd = mframe

    def series(self, vals, idx, name="x"):
        if self.kind == "pandas":
            ix = self.pd.to_datetime(list(idx), unit="ns") if self.time else list(idx)
            return self.pd.Series(_nan(vals), index=ix, name=name)
        return self.pd.MSeries(self.pd.wrap(vals) if name == "x" else list(vals), list(idx), name)

    def frame(self, cols, idx):
        if self.kind == "pandas":
            ix = self.pd.to_datetime(list(idx), unit="ns") if self.time else list(idx)
            return self.pd.DataFrame({k: _nan(v) for k, v in cols.items()}, index=ix)
        return self.pd.MFrame({k: (self.pd.wrap(v) if k != "k" else list(v)) for k, v in cols.items()}, list(idx))

    time = False

    def concat(self, objs):
        return self.pd.concat(objs)

    def window_value(self, T):
        if self.kind == "pandas":
            return self.pd.Timedelta(T, unit="ns")
        return self.pd.Duration(T)


def norm(x):
    """Normalise a result to comparable python data."""
    if x is None:
        return None
    tn = type(x).__name__
    if tn in ("MSeries",):
        keys = [k.n if (type(k).__name__ == "R" and k.d == 1) else k for k in x.index.values]
        return {"keys": keys, "vals": [None if (type(v).__name__ == "R" and v.d == 0) else v for v in x.values]}
    if tn == "Series":
        vals = [None if (isinstance(v, float) and (math.isnan(v) or math.isinf(v))) else v for v in x.tolist()]
        keys = list(x.index)
        try:
            keys = [int(k.value) if hasattr(k, "value") else k for k in keys]
        except Exception:
            pass
        return {"keys": keys, "vals": vals}
    if isinstance(x, float) and (math.isnan(x) or math.isinf(x)):
        return None
    if tn == "R" and x.d == 0:
        return None
    return x


def num_eq(a, b):
    """Equality of two numbers; pandas side is float: tolerate rounding only there.
    Model numbers are exact rationals (mframe.R): == is cross-multiplication."""
    if a is None or b is None:
        return a is None and b is None
    ta, tb = type(a).__name__, type(b).__name__
    if ta == "R" or tb == "R":
        if isinstance(a, tuple) or isinstance(b, tuple):
            return False
        if ta == "R" and tb != "R":
            return abs(float(a) - float(b)) <= 1e-9 * max(1.0, abs(float(b)))
        if tb == "R" and ta != "R":
            return abs(float(b) - float(a)) <= 1e-9 * max(1.0, abs(float(a)))
        return a == b
    if isinstance(a, tuple) and isinstance(b, tuple) and a[0] == "sqrt":
        return num_eq(a[1], b[1])
    if isinstance(a, tuple) or isinstance(b, tuple):       # ("sqrt", v)
        return a == b
    if isinstance(a, float) or isinstance(b, float):
        try:
            return abs(a - b) <= 1e-9 * max(1.0, abs(a), abs(b))
        except TypeError:
            return a == b
    return a == b


def same(a, b, as_map=True, ignore_zero=False):
    """Compare two normalised results."""
    if isinstance(a, dict) and isinstance(b, dict):
        if as_map:
            pa = list(zip(a["keys"], a["vals"]))
            pb = list(zip(b["keys"], b["vals"]))
            if ignore_zero:
                pa = [(k, v) for k, v in pa if not num_eq(v, 0)]
                pb = [(k, v) for k, v in pb if not num_eq(v, 0)]
            if len(pa) != len(pb):
                return False
            for k, v in pa:
                hit = [w for kk, w in pb if kk == k]
                if len(hit) != 1 or not num_eq(v, hit[0]):
                    return False
            return True
        if len(a["vals"]) != len(b["vals"]):
            return False
        for x, y in zip(a["vals"], b["vals"]):
            if not num_eq(x, y):
                return False
        for x, y in zip(a["keys"], b["keys"]):
            if x != y:
                return False
        return True
    if isinstance(a, dict) or isinstance(b, dict):
        return False
    return num_eq(a, b)


def build(be, spec, example_batch, start=None):
    """Real streamz wrappers.  Returns (emit_fn, results_list)."""
    from streamz import Stream
    from streamz.dataframe import Series, DataFrame
    op = spec["op"]
    src = Stream()
    kind = spec.get("kind", "series")
    if kind == "series":
        ex = be.series(example_batch["x"], example_batch["idx"])
        sdf = Series(example=ex, stream=src)
        target = sdf

        def make(b):
            return be.series(b["x"], b["idx"])
    elif kind == "frame2":
        # two value columns, reductions over the whole frame (state = one Series per statistic)
        ex = be.frame({"x": example_batch["x"], "y": [v for v in example_batch["x"]]}, example_batch["idx"])
        sdf = DataFrame(example=ex, stream=src)
        target = sdf

        def make(b):
            return be.frame({"x": b["x"], "y": [v * 2 + 1 for v in b["x"]]}, b["idx"])
    else:
        cols = {"x": example_batch["x"], "k": example_batch["k"]}
        ex = be.frame(cols, example_batch["idx"])
        sdf = DataFrame(example=ex, stream=src)
        target = sdf

        def make(b):
            return be.frame({"x": b["x"], "k": b["k"]}, b["idx"])
    w = spec.get("window")
    kw = {}
    if start is not None:
        kw["start"] = start
    ws = spec.get("with_state", False)
    if w is not None:
        wkw = dict(kw)
        if ws:
            wkw["with_state"] = True
        if w[0] == "n":
            target = target.window(n=w[1], **wkw)
        elif w[0] == "value":
            target = target.window(value=be.window_value(w[1]), **wkw)
        elif w[0] == "expanding":
            target = target.expanding(**wkw)
        elif w[0] == "ewm":
            target = target.ewm(com=w[1], **wkw)
        kw = {}
    grouper = spec.get("groupby")
    if grouper == "column":
        target = target.groupby("k")["x"]
    elif grouper == "stream":
        target = target.groupby(sdf.k)["x"] if w is None else target.groupby(sdf.k)["x"]
    if op in ("cumsum", "cumprod", "cummin", "cummax"):
        out = getattr(target, op)()
    elif op.startswith("rolling_"):
        rw = spec["rolling"]
        rkw = {}
        if ws:
            rkw["with_state"] = True
        if start is not None:
            rkw["start"] = start
        r = target.rolling(be.window_value(rw[1]) if rw[0] == "value" else rw[1], **rkw)
        out = getattr(r, op[len("rolling_"):])()
    elif op == "size":
        out = target.size() if grouper else target.size
    elif op == "value_counts":
        out = target.value_counts()
    elif op in ("sum", "count", "mean") and w is None and not grouper:
        out = getattr(target, op)(**kw)
    elif grouper and w is None and op in ("sum", "count", "mean"):
        out = getattr(target, op)(**kw)
    else:
        out = getattr(target, op)()
    L = out.stream.sink_to_list()

    def emit(b):
        sdf.emit(make(b))
    emit.out = out
    return emit, L, make


def oracle(be, spec, batches, k):
    """One-shot aggregation with the backend's own API over the prefix / window."""
    kind = spec.get("kind", "series")
    pre = {"x": [], "k": [], "idx": []}
    for b in batches[:k]:
        pre["x"] += list(b["x"])
        pre["k"] += list(b.get("k", []))
        pre["idx"] += list(b["idx"])
    w = spec.get("window")
    rows = list(range(len(pre["idx"])))
    if w is not None and w[0] == "n":
        rows = rows[-w[1]:] if w[1] > 0 else []
    elif w is not None and w[0] == "value" and rows:
        newest = pre["idx"][-1]
        for i in pre["idx"]:
            if i > newest:
                newest = i
        rows = [j for j in rows if pre["idx"][j] > newest - w[1]]
    x = [pre["x"][j] for j in rows]
    kk = [pre["k"][j] for j in rows] if pre["k"] else []
    idx = [pre["idx"][j] for j in rows]
    if not rows:
        return "EMPTY"
    op = spec["op"]
    if kind == "frame2":
        f2 = be.frame({"x": x, "y": [None if v is None else v * 2 + 1 for v in x]}, idx)
        return norm(getattr(f2, op)())
    if kind == "series" or not spec.get("groupby"):
        s = be.series(x, idx)
        if op == "size":
            return len(x)
        if op == "std":
            v = s.var()
            return None if v is None else ("sqrt", v) if be.kind == "model" else s.std()
        if op == "value_counts":
            return norm(s.value_counts())
        return norm(getattr(s, op)())
    f = be.frame({"x": x, "k": kk}, idx)
    g = f.groupby("k")["x"]
    if op == "std":
        return norm(g.var()) if be.kind == "model" else norm(g.std())
    return norm(getattr(g, op)())
